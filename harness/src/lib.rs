//! vharness: scripted environment, op language, interpreter, oracles and engines for deciding the
//! listed properties of futures-buffered by property-based testing and fuzzing (see /verif/DESIGN.md).
pub mod alloc;
pub mod decode;
pub mod fuzzrun;
pub mod engine;
pub mod gen;
pub mod interp;
pub mod ops;
pub mod script;
pub mod subject;
pub mod world;
