//! vcheck: driver of the E1 history engine (and of replay).
//!
//!   vcheck run <Cxx> <quick|thorough> [--cases N] [--threads N] [--no-evidence]
//!   vcheck replay <file>
//!   vcheck gen <Cxx> <n>          print n generated cases (debugging the generators)

use serde_json::{json, Value};
use std::sync::atomic::Ordering;
use vharness::alloc::VAlloc;
use vharness::engine::*;
use vharness::interp::*;
use vharness::ops::Case;

#[global_allocator]
static GLOBAL: VAlloc = VAlloc;

static WATCH_PROP: std::sync::OnceLock<String> = std::sync::OnceLock::new();

fn quick_cases(prop: u32) -> u64 {
    match prop {
        13 => 30_000,
        18 => 40_000,
        16 => 100_000,
        _ => 160_000,
    }
}

fn parse_prop(s: &str) -> u32 {
    let n: u32 = s.trim_start_matches('C').parse().unwrap_or(0);
    if !(1..=18).contains(&n) {
        eprintln!("unknown property {s}");
        std::process::exit(2);
    }
    n
}

fn silence_panics() {
    if std::env::var("VERIF_PANIC_VERBOSE").is_err() {
        std::panic::set_hook(Box::new(|_| {}));
    }
}

fn main() {
    let args: Vec<String> = std::env::args().collect();
    if args.len() < 2 {
        eprintln!("usage: vcheck run <Cxx> <quick|thorough> | replay <file> | gen <Cxx> <n>");
        std::process::exit(2);
    }
    match args[1].as_str() {
        "run" => cmd_run(&args[2..]),
        "replay" => cmd_replay(&args[2..]),
        "gen" => cmd_gen(&args[2..]),
        _ => {
            eprintln!("unknown command");
            std::process::exit(2);
        }
    }
}

fn cmd_gen(a: &[String]) {
    use proptest::strategy::{Strategy, ValueTree};
    use proptest::test_runner::{Config, RngSeed, TestRunner};
    let prop = parse_prop(&a[0]);
    let n: usize = a.get(1).and_then(|s| s.parse().ok()).unwrap_or(3);
    let mut runner = TestRunner::new(Config {
        rng_seed: RngSeed::Fixed(1),
        failure_persistence: None,
        ..Config::default()
    });
    let st = vharness::gen::case_strategy(prop);
    silence_panics();
    install_hooks();
    for _ in 0..n {
        let c = st.new_tree(&mut runner).unwrap().current();
        let r = run_one_checked(&c, false, true, 1 << prop);
        println!("{}", serde_json::to_string(&c).unwrap());
        match r {
            Ok(r) => println!(
                "   -> violations {:?} labels {:#x} stats {:?}",
                r.violations.iter().map(|v| &v.sig).collect::<Vec<_>>(),
                r.labels,
                r.stats
            ),
            Err(e) => println!("   -> HARNESS PANIC {e}"),
        }
    }
}

fn cmd_replay(a: &[String]) {
    let path = &a[0];
    let s = std::fs::read_to_string(path).unwrap_or_else(|e| {
        eprintln!("cannot read {path}: {e}");
        std::process::exit(2)
    });
    let v: Value = serde_json::from_str(&s).unwrap_or_else(|e| {
        eprintln!("{path}: {e}");
        std::process::exit(2)
    });
    let prop = parse_prop(v["property"].as_str().unwrap_or("C00"));
    let case: Case = serde_json::from_value(v["case"].clone()).unwrap_or_else(|e| {
        eprintln!("{path}: bad case: {e}");
        std::process::exit(2)
    });
    let quiet = a.iter().any(|x| x == "--quiet");
    silence_panics();
    install_hooks();
    match run_one_checked(&case, true, true, 1 << prop) {
        Err(e) => {
            println!("HARNESS PANIC during replay: {e}");
            std::process::exit(2);
        }
        Ok(r) => {
            if !quiet {
                for l in &r.log {
                    println!("{l}");
                }
            }
            let known = load_known();
            let mut bad = 0;
            for v in violations_of(prop, &r) {
                let k = known
                    .iter()
                    .any(|k| k.status == "known" && k.signature == v.sig && k.property == format!("C{prop:02}"));
                if k {
                    println!("KNOWN-FINDING: property=C{prop:02} {} :: {}", v.sig, v.msg);
                } else {
                    println!("violated: C{prop:02} [{}] {}", v.sig, v.msg);
                    bad += 1;
                }
            }
            for v in r.violations.iter().filter(|v| v.props & (1 << prop) == 0) {
                println!("(other oracle: {} :: {})", v.sig, v.msg);
            }
            if bad > 0 {
                println!("VIOLATION property=C{prop:02} replay={path}");
                std::process::exit(1);
            }
            println!("replay of {path}: property C{prop:02} held");
        }
    }
}

fn cmd_run(a: &[String]) {
    let prop = parse_prop(&a[0]);
    let tier = a.get(1).map(|s| s.as_str()).unwrap_or("quick").to_string();
    let mut cases = quick_cases(prop) * if tier == "thorough" { 12 } else { 1 };
    let mut threads = std::thread::available_parallelism().map(|n| n.get()).unwrap_or(8).min(16);
    let mut write_evidence = true;
    let mut out_summary: Option<String> = None;
    let mut i = 2;
    while i < a.len() {
        match a[i].as_str() {
            "--cases" => {
                cases = a[i + 1].parse().unwrap();
                i += 1;
            }
            "--threads" => {
                threads = a[i + 1].parse().unwrap();
                i += 1;
            }
            "--no-evidence" => write_evidence = false,
            "--out" => {
                out_summary = Some(a[i + 1].clone());
                write_evidence = false;
                i += 1;
            }
            _ => {}
        }
        i += 1;
    }
    let seed: u64 = std::env::var("VERIF_SEED").ok().and_then(|s| s.parse().ok()).unwrap_or(1);
    let _ = WATCH_PROP.set(format!("C{prop:02}"));
    silence_panics();
    // watchdog: a hang inside the crate is "inconclusive", never a violation
    std::thread::spawn(|| {
        let mut last = 0;
        let mut idle = 0;
        loop {
            std::thread::sleep(std::time::Duration::from_secs(5));
            let p = PROGRESS.load(Ordering::Relaxed);
            if p == last {
                idle += 5;
                if idle >= 120 {
                    // a shard is stuck inside the crate (an endless loop that never calls back). Whatever the
                    // other shards - or this one, before it got stuck - have found is still reported.
                    let found: Vec<Failure> = SO_FAR.lock().map(|g| g.clone()).unwrap_or_default();
                    if !found.is_empty() {
                        let dir = verif_dir();
                        let _ = std::fs::create_dir_all(format!("{dir}/replays"));
                        let mut seen = std::collections::HashSet::new();
                        for f in &found {
                            if !seen.insert(f.sig.clone()) {
                                continue;
                            }
                            let pid = f.sig.split('/').next().unwrap_or("Cxx").to_string();
                            let pid = WATCH_PROP.get().cloned().unwrap_or(pid);
                            let path = format!("{dir}/replays/{pid}-{:016x}.json", f.case.digest());
                            let doc = json!({"property": pid, "engine": "E1", "signature": f.sig, "message": f.msg, "case": f.case,
                                "note": "written by the watchdog: another case hung inside the crate before the run could finish"});
                            let _ = std::fs::write(&path, serde_json::to_string_pretty(&doc).unwrap());
                            println!("  [{}] {}", f.sig, f.msg);
                            println!("VIOLATION property={pid} replay={path}");
                        }
                        println!("(watchdog: no case finished for 120 s - a case hangs inside the crate; reporting what was found)");
                        std::process::exit(1);
                    }
                    println!("INCONCLUSIVE: watchdog - no case finished for 120 s (hang?)");
                    std::process::exit(2);
                }
            } else {
                idle = 0;
                last = p;
            }
        }
    });
    let pid = format!("C{prop:02}");
    let dir = verif_dir();
    let known = load_known();
    let mut vio_lines = Vec::new();
    let mut seen = std::collections::HashSet::new();
    // replay tier: every committed regression input of this property (seconds)
    let mut replays_run = 0u32;
    install_hooks();
    if let Ok(rd) = std::fs::read_dir(format!("{dir}/replays/regress")) {
        let mut files: Vec<_> = rd.flatten().map(|e| e.path()).filter(|p| p.extension().map_or(false, |e| e == "json")).collect();
        files.sort();
        for f in files {
            let Ok(txt) = std::fs::read_to_string(&f) else { continue };
            let Ok(v) = serde_json::from_str::<Value>(&txt) else { continue };
            if v["property"].as_str() != Some(pid.as_str()) || v["engine"].as_str().unwrap_or("E1") != "E1" {
                continue;
            }
            let Ok(case) = serde_json::from_value::<Case>(v["case"].clone()) else { continue };
            replays_run += 1;
            if let Ok(r) = run_one_checked(&case, false, true, 1 << prop) {
                for vi in violations_of(prop, &r) {
                    let k = known.iter().any(|k| k.status == "known" && k.signature == vi.sig && k.property == pid);
                    if !k && seen.insert(vi.sig.clone()) {
                        vio_lines.push((vi.sig.clone(), vi.msg.clone(), f.display().to_string()));
                    }
                }
            }
        }
    }
    let out = run_e1(prop, seed, cases, threads, true, 4000);
    for f in &out.failures {
        if !seen.insert(f.sig.clone()) {
            continue;
        }
        // re-run the shrunk case with tracing for the replay file
        let log = match run_one_checked(&f.case, true, true, 1 << prop) {
            Ok(r) => r.log,
            Err(e) => vec![format!("harness panic while tracing: {e}")],
        };
        let path = format!("{dir}/replays/{pid}-{:016x}.json", f.case.digest());
        let _ = std::fs::create_dir_all(format!("{dir}/replays"));
        let doc = json!({
            "property": pid, "engine": "E1", "signature": f.sig, "message": f.msg,
            "seed": seed, "tier": tier, "case": f.case, "log": log,
        });
        let _ = std::fs::write(&path, serde_json::to_string_pretty(&doc).unwrap());
        vio_lines.push((f.sig.clone(), f.msg.clone(), path));
    }
    for (sig, n) in &out.agg.known_hits {
        let what = known.iter().find(|k| &k.signature == sig).map(|k| k.what.clone()).unwrap_or_default();
        println!("KNOWN-FINDING: property={pid} {sig} ({n} cases) {what}");
    }
    let a = &out.agg;
    println!(
        "{pid} {tier} seed={seed}: {} cases, {} distinct non-trivial, {} polls, {} child polls, max groups {}, max population {}, aborted {}, {:.1}s",
        a.evaluations,
        a.nontrivial.len(),
        a.polls,
        a.child_polls,
        a.max_groups,
        a.max_peak,
        a.aborted,
        out.wall_s
    );
    if !a.other_hits.is_empty() {
        println!("  (violations of other properties seen while checking {pid}, not fatal here: {:?})", a.other_hits);
    }
    if write_evidence {
        let ev = json!({
            "property_id": pid, "tier": tier, "seed": seed, "level": "exploration",
            "coverage": {
                "evaluations": a.evaluations,
                "distinct_nontrivial": a.nontrivial.len(),
                "rule": rule_text(prop),
                "samples": a.samples,
                "engines": { "E1-histories": { "cases": a.evaluations, "polls": a.polls, "child_polls": a.child_polls, "threads": threads } },
                "labels": a.labels, "subjects": a.subjects, "nontrivial_by_subject": a.nontrivial_by_subject,
                "max_groups": a.max_groups, "max_population": a.max_peak,
                "known_findings_hit": a.known_hits,
                "excluded": a.known_hits.values().sum::<u64>(),
                "other_oracle_hits": a.other_hits,
                "aborted_cases": a.aborted,
                "size_hints_checked": a.hints_checked,
                "regression_replays_run": replays_run,
            },
            "assumptions": [
                "exploration, not proof: results hold for the generated domain and case counts only",
                "hooks under cfg(futures_buffered_verif) are add-only and idle in this engine (probes only observe)",
                "single-threaded histories; thread schedules are the business of engine E2/E4"
            ],
            "wall_s": out.wall_s,
            "violations": vio_lines.len(),
        });
        let _ = std::fs::create_dir_all(format!("{dir}/evidence"));
        let _ = std::fs::write(format!("{dir}/evidence/{pid}.json"), serde_json::to_string_pretty(&ev).unwrap());
    }
    if let Some(o) = &out_summary {
        let name = if cfg!(debug_assertions) { "E1-histories" } else { "E1-histories-no-debug-assertions" };
        let sm = json!({
            "engine": name, "property": pid, "tier": tier, "seed": seed,
            "executions": a.evaluations, "distinct_nontrivial": a.nontrivial.len(),
            "rule": "the same generated histories and oracles as E1, with the crate built WITHOUT debug assertions / overflow checks (its debug_assert!s and unreachable_unchecked guards are compiled out, as in a release build of a user)",
            "polls": a.polls, "child_polls": a.child_polls, "subjects": a.subjects,
            "samples": a.samples.iter().take(1).collect::<Vec<_>>(), "violations": vio_lines.iter().map(|v| v.0.clone()).collect::<Vec<_>>(), "wall_s": out.wall_s,
        });
        let _ = std::fs::write(o, serde_json::to_string_pretty(&sm).unwrap());
    }
    if !a.harness_errors.is_empty() {
        for e in a.harness_errors.iter().take(3) {
            println!("HARNESS-ERROR: {e}");
        }
        if vio_lines.is_empty() {
            std::process::exit(2);
        }
    }
    if !vio_lines.is_empty() {
        for (sig, msg, path) in &vio_lines {
            println!("  [{sig}] {msg}");
            println!("VIOLATION property={pid} replay={path}");
        }
        std::process::exit(1);
    }
}
