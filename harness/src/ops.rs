//! The op language: a case is (subject, configuration, operations).

use crate::subject::{Cfg, Subj};
use crate::world::Plan;
use serde::{Deserialize, Serialize};

#[derive(Clone, Debug, PartialEq, Eq, Serialize, Deserialize)]
pub enum Op {
    /// push / push_back (panics when a bounded subject is full)
    Push(Plan),
    /// push_front (ordered collections; elsewhere = Push)
    PushFront(Plan),
    /// try_push / try_push_back
    TryPush(Plan),
    /// try_push_front
    TryPushFront(Plan),
    /// k times TryPush with the same plan
    PushMany(u8, Plan),
    /// `Extend::extend` with k children (ordered collections; elsewhere = PushMany)
    Extend(u8, Plan),
    /// one poll with task waker k
    Poll(u8),
    /// poll with task waker k while items come, at most n polls
    PollMany(u8, u8),
    /// executor loop: poll with waker k while an item came or the task waker was invoked, at most n polls
    Exec(u8, u8),
    /// mark the selected held child ready (no wake)
    SetReady(u16),
    /// mark the selected held child ready and wake it through a waker it stashed
    Complete(u16),
    /// Complete for k consecutive held children starting at the selected one
    CompleteMany(u16, u8),
    /// Complete every held child except the selected one
    CompleteAllBut(u16),
    /// use a stashed waker of the selected held child (how: see world::How)
    Wake(u16, u8),
    /// use a stashed waker of a child that is no longer held
    WakeStale(u16, u8),
    /// wake the upstream of an adapter (external wake of a pending gap)
    UpWake,
    /// move the subject value to a different memory location
    Move,
    /// C14 probe: freeze every child and poll until a clean Pending
    Settle,
    /// drop the subject now (the remaining ops only use wakers)
    DropSubject,
    /// drop every stashed waker of children that are no longer held
    DropStaleWakers,
    /// n times: run the executor until one item came out, then push one new child (push-one/pop-one)
    Refill(u16, Plan),
}

#[derive(Clone, Debug, PartialEq, Eq, Serialize, Deserialize)]
pub struct Case {
    pub subj: Subj,
    pub cfg: Cfg,
    pub ops: Vec<Op>,
    /// joins: extra polls after the first Ready
    pub repolls: u8,
}

impl Case {
    pub fn digest(&self) -> u64 {
        // FNV-1a over the JSON form: stable across runs and platforms
        let s = serde_json::to_vec(self).unwrap_or_default();
        let mut h: u64 = 0xcbf29ce484222325;
        for b in s {
            h ^= b as u64;
            h = h.wrapping_mul(0x100000001b3);
        }
        h
    }
}
