//! The only future / stream / value types ever handed to the crate under test.

use crate::alloc::{vt, CbGuard};
use crate::world::*;
use futures_core::Stream;
use std::future::Future;
use std::marker::{PhantomData, PhantomPinned};
use std::pin::Pin;
use std::task::{Context, Poll, Waker};

const MAGIC: u64 = 0x7665_7269_665F_746B; // "verif_tk"

/// Plain-old-data output value with a drop ledger entry. No pointer inside: a garbage `Token`
/// can be inspected and dropped without crashing, it merely fails validation.
#[repr(C)]
#[derive(Debug)]
pub struct Token {
    magic: u64,
    tid: u32,
    chk: u32,
}

pub type ErrTok = Token;

/// The same identity as a `Token` but without drop glue (`needs_drop::<PTok>() == false`), for code
/// paths that specialise on that. Not drop-tracked; validated when handed out.
#[repr(C)]
#[derive(Debug, Clone, Copy)]
pub struct PTok {
    magic: u64,
    tid: u32,
    chk: u32,
}
impl PTok {
    pub fn new(child: Cid) -> PTok {
        let (tid, nonce) = w(|x| (x.new_tok(TokKind::OutPlain, child, 0), x.nonce));
        PTok {
            magic: MAGIC,
            tid,
            chk: tid ^ nonce,
        }
    }
    pub fn valid(&self) -> Option<u32> {
        if self.magic != MAGIC {
            return None;
        }
        let (n, nonce) = w(|x| (x.toks.len() as u32, x.nonce));
        if self.tid < n && self.chk == self.tid ^ nonce {
            Some(self.tid)
        } else {
            None
        }
    }
    pub fn raw(&self) -> (u64, u32, u32) {
        (self.magic, self.tid, self.chk)
    }
}

impl Token {
    pub fn new(kind: TokKind, child: Cid, seq: u32) -> Token {
        let (tid, nonce) = w(|x| (x.new_tok(kind, child, seq), x.nonce));
        Token {
            magic: MAGIC,
            tid,
            chk: tid ^ nonce,
        }
    }
    /// Some(tid) if this is a value this case really produced
    pub fn valid(&self) -> Option<u32> {
        if self.magic != MAGIC {
            return None;
        }
        let (n, nonce) = w(|x| (x.toks.len() as u32, x.nonce));
        if self.tid < n && self.chk == self.tid ^ nonce {
            Some(self.tid)
        } else {
            None
        }
    }
    pub fn raw(&self) -> (u64, u32, u32) {
        (self.magic, self.tid, self.chk)
    }
}

impl Drop for Token {
    fn drop(&mut self) {
        let _cb = CbGuard::new();
        match self.valid() {
            Some(t) => w(|x| {
                x.toks[t as usize].dropped += 1;
                if x.toks[t as usize].dropped > 1 {
                    let c = x.toks[t as usize].child;
                    x.violate(
                        p(6),
                        "C06/output-dropped-twice",
                        format!("output value #{t} of child {c} dropped twice"),
                    );
                }
            }),
            None => {
                let raw = self.raw();
                w(|x| {
                    x.violate(
                        p(7) | p(6),
                        "C07/garbage-value-dropped",
                        format!("a value that no child produced was dropped: raw={raw:x?}"),
                    )
                })
            }
        }
    }
}

// ------------------------------------------------------------------------------------------------

pub trait Kind: 'static {
    type Out;
    fn make(id: Cid, fail: bool) -> Self::Out;
}
pub struct Plain;
pub struct Try;
pub struct Unit;
impl Kind for Plain {
    type Out = Token;
    fn make(id: Cid, _fail: bool) -> Token {
        Token::new(TokKind::Out, id, 0)
    }
}
impl Kind for Try {
    type Out = Result<Token, ErrTok>;
    fn make(id: Cid, fail: bool) -> Self::Out {
        if fail {
            Err(Token::new(TokKind::Err, id, 0))
        } else {
            Ok(Token::new(TokKind::Out, id, 0))
        }
    }
}
impl Kind for Unit {
    type Out = ();
    fn make(_id: Cid, _fail: bool) {}
}
/// outputs without drop glue
pub struct PlainND;
pub struct TryND;
impl Kind for PlainND {
    type Out = PTok;
    fn make(id: Cid, _fail: bool) -> PTok {
        PTok::new(id)
    }
}
impl Kind for TryND {
    type Out = Result<PTok, ErrTok>;
    fn make(id: Cid, fail: bool) -> Self::Out {
        if fail {
            Err(Token::new(TokKind::Err, id, 0))
        } else {
            Ok(PTok::new(id))
        }
    }
}

pub struct ScriptFut<K: Kind> {
    pub id: Cid,
    _k: PhantomData<fn() -> K>,
    _pin: PhantomPinned,
}

impl<K: Kind> ScriptFut<K> {
    pub fn new(id: Cid) -> Self {
        ScriptFut {
            id,
            _k: PhantomData,
            _pin: PhantomPinned,
        }
    }
    /// create the world entry and the future in one go (outside any borrow)
    pub fn create(plan: &Plan) -> Self {
        let id = w(|x| x.new_child(Role::Fut, plan));
        Self::new(id)
    }
}

enum Phase {
    Pending { self_wake: bool, act: Option<Action> },
    Ready { self_wake: bool, act: Option<Action>, fail: bool },
}

fn stash_waker(id: Cid, waker: &Waker, mode: u8) {
    let c = vt(|| waker.clone());
    let old: Vec<Waker> = w(|x| {
        let st = &mut x.children[id as usize].stash;
        if mode >= 2 {
            let mut out = Vec::new();
            if st.len() >= 4 {
                out.push(st.remove(0));
            }
            st.push(c);
            out
        } else {
            let out = std::mem::take(st);
            st.push(c);
            out
        }
    });
    vt(|| drop(old));
}

/// common entry book-keeping of a child poll. Returns false if the hard cap was hit.
fn enter_child_poll(id: Cid, addr: usize, slot: usize, what: &str) -> bool {
    w(|x| {
        x.child_polls += 1;
        x.child_polls_in_call += 1;
        if x.child_polls_in_call > HARD_CAP {
            x.hard_cap_hit = true;
            return false;
        }
        if x.child_polls_in_call >= BUDGET {
            x.labels |= lb::BUDGET;
        }
        let in_poll = x.in_poll;
        let seq = x.poll_seq;
        let (life, dropped, old_addr, role) = {
            let c = &x.children[id as usize];
            (c.life, c.dropped, c.addr, c.role)
        };
        x.ev(|| format!("    poll {what} {id}"));
        if dropped > 0 {
            x.violate(
                p(5) | p(6),
                "C05/polled-after-drop",
                format!("child {id} polled after it was dropped"),
            );
        }
        if life == Life::Done {
            if role == Role::Upstream {
                x.violate(
                    p(10),
                    "C10/upstream-polled-after-none",
                    format!("upstream polled again after it returned None (collection poll #{seq})"),
                );
            } else {
                x.violate(
                    p(5),
                    "C05/polled-after-completion",
                    format!("child {id} polled again after it returned Ready/None (collection poll #{seq})"),
                );
            }
        }
        if old_addr != 0 && old_addr != addr {
            x.violate(
                p(8),
                "C08/moved-between-polls",
                format!("child {id} was first polled at {old_addr:#x}, now polled at {addr:#x}"),
            );
        }
        if !in_poll {
            x.violate(
                p(12),
                "C12/polled-outside-poll",
                format!("child {id} polled while no poll of the collection is running"),
            );
        }
        let epoch = x.epoch;
        let c = &mut x.children[id as usize];
        if c.addr == 0 {
            c.addr = addr;
        }
        if c.life == Life::Fresh {
            c.life = Life::Polled;
        }
        let moved = c.polls > 0 && c.epoch != epoch;
        c.epoch = epoch;
        c.polls += 1;
        c.dirty = false;
        c.dirty_wake = false;
        c.woke = false;
        c.slot = slot;
        c.polled_in_call = true;
        x.polled_list.push(id);
        if moved {
            x.labels |= lb::MOVED;
        }
        true
    })
}

fn mark_done(x: &mut World, id: Cid) {
    x.children[id as usize].life = Life::Done;
    x.unhold(id);
    if x.children[id as usize].role == Role::Fut && x.children[id as usize].accepted {
        x.parked += 1;
    }
    x.done_this_call.push(id);
    x.completion_order.push(id);
    x.events_in_call += 1;
    if x.children[id as usize].role == Role::Fut && x.adapter {
        x.inflight -= 1;
        x.completed += 1;
    }
}

/// the behaviour of a scripted future, shared by the drop-tracked and the drop-glue-free flavour
fn poll_child<K: Kind>(id: Cid, addr: usize, cx: &mut Context<'_>) -> Poll<K::Out> {
    let _cb = CbGuard::new();
    let slot = cx.waker().data() as usize;
    if !enter_child_poll(id, addr, slot, "child") {
        panic!("VERIF_HARD_CAP");
    }
    let boom = w(|x| {
        let c = &mut x.children[id as usize];
        if c.panic_left > 0 && !x.frozen {
            c.panic_left -= 1;
            true
        } else {
            false
        }
    });
    if boom {
        // park a waker first, so that the environment can still wake this child afterwards
        let mode = w(|x| x.children[id as usize].plan.stash.max(1));
        stash_waker(id, cx.waker(), mode);
        w(|x| {
            x.labels |= lb::CHILD_PANIC;
            x.lenient = true;
            x.ev(|| format!("    child {id} panics inside its poll"));
        });
        panic!("VERIF_CHILD_PANIC");
    }
    let (phase, mode) = w(|x| {
        let frozen = x.frozen;
        let c = &mut x.children[id as usize];
        let mode = c.plan.stash.max(1);
        if frozen {
            return (Phase::Pending { self_wake: false, act: None }, mode);
        }
        if c.ready && c.life != Life::Done {
            let sw = c.plan.wake_on_complete;
            let act = c.plan.on_poll;
            let fail = c.plan.fail;
            mark_done(x, id);
            if fail && x.first_err.is_none() {
                x.first_err = Some(id);
            }
            if sw {
                x.labels |= lb::SELF_WAKE_ON_COMPLETE;
            }
            (Phase::Ready { self_wake: sw, act, fail }, mode)
        } else if c.life == Life::Done {
            // polled after completion: already flagged; stay pending and quiet
            (Phase::Pending { self_wake: false, act: None }, mode)
        } else {
            let sw = c.self_wake > 0;
            if c.self_wake > 0 && c.self_wake != 255 {
                c.self_wake -= 1;
            }
            (Phase::Pending { self_wake: sw, act: c.plan.on_poll }, mode)
        }
    });
    match phase {
        Phase::Pending { self_wake, act } => {
            stash_waker(id, cx.waker(), mode);
            if self_wake {
                begin_invocation(slot, id, "self wake_by_ref");
                vt(|| cx.waker().wake_by_ref());
                end_invocation();
            }
            if let Some(a) = act {
                run_action(a);
            }
            Poll::Pending
        }
        Phase::Ready { self_wake, act, fail } => {
            if self_wake {
                begin_invocation(slot, id, "self wake_by_ref (completing)");
                vt(|| cx.waker().wake_by_ref());
                end_invocation();
            }
            if let Some(a) = act {
                run_action(a);
            }
            Poll::Ready(K::make(id, fail))
        }
    }
}

impl<K: Kind> Future for ScriptFut<K> {
    type Output = K::Out;

    fn poll(self: Pin<&mut Self>, cx: &mut Context<'_>) -> Poll<K::Out> {
        let id = self.id;
        let addr = &*self as *const Self as usize;
        poll_child::<K>(id, addr, cx)
    }
}

/// The same scripted future WITHOUT drop glue (`needs_drop::<NdFut<K>>() == false`): its drop cannot be
/// observed, everything else can. For code paths that specialise on the future type having no destructor.
pub struct NdFut<K: Kind> {
    pub id: Cid,
    _k: PhantomData<fn() -> K>,
    _pin: PhantomPinned,
}
impl<K: Kind> NdFut<K> {
    pub fn new(id: Cid) -> Self {
        NdFut {
            id,
            _k: PhantomData,
            _pin: PhantomPinned,
        }
    }
}
impl<K: Kind> Future for NdFut<K> {
    type Output = K::Out;
    fn poll(self: Pin<&mut Self>, cx: &mut Context<'_>) -> Poll<K::Out> {
        let id = self.id;
        let addr = &*self as *const Self as usize;
        poll_child::<K>(id, addr, cx)
    }
}

fn child_dropped(id: Cid, addr: usize) {
    let _cb = CbGuard::new();
    let act = w(|x| {
        let (was_held, old_addr, dropped, role) = {
            let c = &mut x.children[id as usize];
            let h = c.held();
            c.dropped += 1;
            (h, c.addr, c.dropped, c.role)
        };
        x.ev(|| format!("    drop child {id}"));
        if dropped > 1 {
            x.violate(
                p(6),
                "C06/child-dropped-twice",
                format!("child {id} dropped {dropped} times"),
            );
            return None;
        }
        if old_addr != 0 && old_addr != addr {
            x.violate(
                p(8),
                "C08/moved-before-drop",
                format!("child {id} was polled at {old_addr:#x} but dropped at {addr:#x}"),
            );
        }
        if was_held {
            x.unhold(id);
            if role == Role::Fut && x.adapter {
                x.inflight -= 1;
            }
            let pr = x.discard_props();
            // after a child panicked the owner may legitimately get rid of it
            if x.subject_alive && !x.subject_dropping && pr != 0 && !x.lenient {
                x.violate(
                    pr,
                    "Cxx/held-child-discarded",
                    format!("child {id} was dropped unfinished while its owner is alive and is not being dropped"),
                );
            }
        }
        if x.subject_dropping && x.children[id as usize].plan.on_drop.is_some() {
            x.labels |= lb::IN_DROP_WAKE;
        }
        x.children[id as usize].plan.on_drop
    });
    if let Some(a) = act {
        run_action(a);
    }
}

impl World {
    /// which properties a "held child silently discarded" event violates, by subject class
    pub fn discard_props(&self) -> u32 {
        match self.class {
            0 => p(2),
            1 => p(11),
            2 => p(10) | p(6),
            3 => p(7),
            // try_join_all documents that the other futures are cancelled once one has failed
            _ => {
                if self.first_err.is_some() {
                    0
                } else {
                    p(7)
                }
            }
        }
    }
}

impl<K: Kind> Drop for ScriptFut<K> {
    fn drop(&mut self) {
        child_dropped(self.id, self as *const Self as usize);
    }
}

// ------------------------------------------------------------------------------------------------
// streams: merge sources and adapter upstreams

pub trait SKind: 'static {
    type Item;
    fn item(src: Cid, seq: u32) -> Self::Item;
    fn err(src: Cid, seq: u32) -> Option<Self::Item>;
}

/// merge source: items are tokens tagged (source, seq)
pub struct Src;
impl SKind for Src {
    type Item = Token;
    fn item(src: Cid, seq: u32) -> Token {
        Token::new(TokKind::MItem, src, seq)
    }
    fn err(_: Cid, _: u32) -> Option<Token> {
        None
    }
}

fn spawn_from_upstream() -> Cid {
    w(|x| {
        let plan = if x.up_plans.is_empty() {
            Plan {
                stash: 1,
                ..Plan::default()
            }
        } else {
            x.up_plans.remove(0)
        };
        let id = x.new_child(Role::Fut, &plan);
        x.accept(id);
        x.pulled += 1;
        x.inflight += 1;
        x.events_in_call += 1;
        if x.completed > 0 {
            x.labels |= lb::REFILL;
        }
        let lim = x.limit as i64;
        if lim > 0 {
            if x.inflight == lim {
                x.labels |= lb::LIMIT_REACHED;
            }
            if x.inflight > lim {
                let inf = x.inflight;
                x.violate(
                    p(9),
                    "C09/limit-exceeded",
                    format!("{inf} unfinished futures in flight with limit {lim}"),
                );
            }
            if x.ordered_adapter && (x.pulled - x.delivered) as i64 > lim {
                let (pu, de) = (x.pulled, x.delivered);
                x.violate(
                    p(16),
                    "C16/backlog-exceeds-n",
                    format!("pulled {pu} - yielded {de} > n = {lim} at an upstream pull"),
                );
            }
        }
        x.ev(|| format!("      upstream hands out future {id}"));
        id
    })
}

pub struct UpPlain;
impl SKind for UpPlain {
    type Item = ScriptFut<Plain>;
    fn item(_: Cid, _: u32) -> Self::Item {
        ScriptFut::new(spawn_from_upstream())
    }
    fn err(_: Cid, _: u32) -> Option<Self::Item> {
        None
    }
}
pub struct UpUnit;
impl SKind for UpUnit {
    type Item = ScriptFut<Unit>;
    fn item(_: Cid, _: u32) -> Self::Item {
        ScriptFut::new(spawn_from_upstream())
    }
    fn err(_: Cid, _: u32) -> Option<Self::Item> {
        None
    }
}
pub struct UpTry;
impl SKind for UpTry {
    type Item = Result<ScriptFut<Try>, ErrTok>;
    fn item(_: Cid, _: u32) -> Self::Item {
        Ok(ScriptFut::new(spawn_from_upstream()))
    }
    fn err(src: Cid, seq: u32) -> Option<Self::Item> {
        w(|x| {
            x.labels |= lb::UP_ERR;
            x.events_in_call += 1;
        });
        Some(Err(Token::new(TokKind::UpErr, src, seq)))
    }
}

pub struct ScriptStream<S: SKind> {
    pub id: Cid,
    _k: PhantomData<fn() -> S>,
}

impl<S: SKind> ScriptStream<S> {
    pub fn new(id: Cid) -> Self {
        ScriptStream { id, _k: PhantomData }
    }
    pub fn create(role: Role, plan: &Plan) -> Self {
        let id = w(|x| x.new_child(role, plan));
        Self::new(id)
    }
}

enum SPhase {
    Item(u32),
    Err(u32),
    Pend(bool),
    End,
}

/// the behaviour of a scripted stream, shared by the drop-tracked and the drop-glue-free flavour
fn poll_source<S: SKind>(id: Cid, addr: usize, cx: &mut Context<'_>) -> Poll<Option<S::Item>> {
    let _cb = CbGuard::new();
    let slot = cx.waker().data() as usize;
    let role = w(|x| x.children[id as usize].role);
    if role == Role::Upstream {
        // upstream is not a child of a collection: no child-poll accounting, but life-cycle + address
        w(|x| {
            let (life, old_addr) = {
                let c = &x.children[id as usize];
                (c.life, c.addr)
            };
            x.ev(|| format!("    poll upstream"));
            x.up_polled_in_call = true;
            if life == Life::Done {
                x.violate(
                    p(10),
                    "C10/upstream-polled-after-none",
                    "upstream polled again after it returned None",
                );
            }
            if old_addr != 0 && old_addr != addr {
                x.violate(
                    p(8),
                    "C08/upstream-moved",
                    format!("upstream first polled at {old_addr:#x}, now at {addr:#x}"),
                );
            }
            let c = &mut x.children[id as usize];
            if c.addr == 0 {
                c.addr = addr;
            }
            if c.life == Life::Fresh {
                c.life = Life::Polled;
            }
            c.polls += 1;
        });
    } else if !enter_child_poll(id, addr, slot, "source") {
        panic!("VERIF_HARD_CAP");
    }
    let (phase, mode) = w(|x| {
        let frozen = x.frozen;
        let stop = x.stop_infinite;
        if frozen && role == Role::Upstream && x.children[id as usize].life != Life::Done {
            x.up_last_pending_in_call = true;
        }
        let c = &mut x.children[id as usize];
        let mode = c.plan.stash.max(1);
        if c.life == Life::Done {
            return (SPhase::End, mode);
        }
        if frozen {
            c.last_pending = true;
            return (SPhase::Pend(false), mode);
        }
        let ph = if c.pos < c.plan.script.len() {
            let st = c.plan.script[c.pos];
            c.pos += 1;
            match st {
                SStep::Item => {
                    let s = c.items_out;
                    c.items_out += 1;
                    SPhase::Item(s)
                }
                SStep::Err => {
                    let s = c.items_out;
                    c.items_out += 1;
                    SPhase::Err(s)
                }
                SStep::Pend(sw) => SPhase::Pend(sw),
            }
        } else if c.plan.infinite && !stop {
            let s = c.items_out;
            c.items_out += 1;
            SPhase::Item(s)
        } else {
            SPhase::End
        };
        match ph {
            SPhase::Pend(_) => c.last_pending = true,
            _ => c.last_pending = false,
        }
        if let SPhase::End = ph {
            if role == Role::Upstream {
                c.life = Life::Done;
                x.up_ended = true;
                x.up_last_pending_in_call = false;
                if x.inflight > 0 {
                    x.labels |= lb::UP_END_INFLIGHT;
                }
            } else {
                mark_done(x, id);
                x.labels |= lb::SOURCE_ENDED;
            }
        } else if role == Role::Upstream {
            x.up_last_pending_in_call = matches!(ph, SPhase::Pend(_));
            if matches!(ph, SPhase::Pend(_)) {
                x.labels |= lb::UP_GAP;
            }
        }
        (ph, mode)
    });
    if role != Role::Upstream && !matches!(phase, SPhase::Pend(_)) {
        // a merged source may use its waker in ANY poll, also in one that yields an item or ends ("at any moment
        // before, during or after a poll"): the slot is then queued by the wake before the merge re-arms it
        let (sw, act) = w(|x| {
            let c = &x.children[id as usize];
            (c.plan.wake_on_complete, c.plan.on_poll)
        });
        if sw {
            w(|x| x.labels |= lb::SELF_WAKE_ON_COMPLETE);
            if !matches!(phase, SPhase::End) {
                stash_waker(id, cx.waker(), mode);
            }
            begin_invocation(slot, id, "self wake_by_ref (source, yielding)");
            vt(|| cx.waker().wake_by_ref());
            end_invocation();
        }
        if let Some(a) = act {
            run_action(a);
        }
    }
    match phase {
        SPhase::Item(seq) => Poll::Ready(Some(S::item(id, seq))),
        SPhase::Err(seq) => match S::err(id, seq) {
            Some(e) => Poll::Ready(Some(e)),
            None => Poll::Ready(Some(S::item(id, seq))),
        },
        SPhase::End => Poll::Ready(None),
        SPhase::Pend(sw) => {
            if role == Role::Upstream {
                let c = cx.waker().clone();
                let old = w(|x| x.children[id as usize].task_stash.replace(c));
                drop(old);
                if sw {
                    w(|x| {
                        x.ev(|| "    upstream wakes itself".to_string());
                        x.bracket += 1
                    });
                    cx.waker().wake_by_ref();
                    w(|x| x.bracket -= 1);
                }
            } else {
                stash_waker(id, cx.waker(), mode);
                if sw {
                    begin_invocation(slot, id, "self wake_by_ref (source)");
                    vt(|| cx.waker().wake_by_ref());
                    end_invocation();
                }
            }
            Poll::Pending
        }
    }
}

fn source_hint(id: Cid) -> (usize, Option<usize>) {
    w(|x| {
        let c = &x.children[id as usize];
        if c.life == Life::Done {
            return (0, Some(0));
        }
        if c.plan.infinite && !x.stop_infinite {
            return (usize::MAX, None);
        }
        let rem = c.plan.script[c.pos.min(c.plan.script.len())..]
            .iter()
            .filter(|s| !matches!(s, SStep::Pend(_)))
            .count();
        match c.upstream_kind % 5 {
            0 => (rem, Some(rem)),
            1 => (rem / 2, Some(rem + 3)),
            2 => (0, None),
            3 => (rem, Some(usize::MAX)),
            _ => (rem, None),
        }
    })
}

impl<S: SKind> Stream for ScriptStream<S> {
    type Item = S::Item;

    fn poll_next(self: Pin<&mut Self>, cx: &mut Context<'_>) -> Poll<Option<S::Item>> {
        let id = self.id;
        let addr = &*self as *const Self as usize;
        poll_source::<S>(id, addr, cx)
    }

    fn size_hint(&self) -> (usize, Option<usize>) {
        source_hint(self.id)
    }
}

/// The same scripted stream WITHOUT drop glue: its drop cannot be observed.
pub struct NdStream<S: SKind> {
    pub id: Cid,
    _k: PhantomData<fn() -> S>,
}
impl<S: SKind> NdStream<S> {
    pub fn new(id: Cid) -> Self {
        NdStream { id, _k: PhantomData }
    }
}
impl<S: SKind> Stream for NdStream<S> {
    type Item = S::Item;
    fn poll_next(self: Pin<&mut Self>, cx: &mut Context<'_>) -> Poll<Option<S::Item>> {
        let id = self.id;
        let addr = &*self as *const Self as usize;
        poll_source::<S>(id, addr, cx)
    }
    fn size_hint(&self) -> (usize, Option<usize>) {
        source_hint(self.id)
    }
}

impl<S: SKind> Drop for ScriptStream<S> {
    fn drop(&mut self) {
        child_dropped(self.id, self as *const Self as usize);
    }
}
