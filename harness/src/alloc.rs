//! Counting / poisoning / quarantining global allocator (DESIGN §3.1). The `#[global_allocator]`
//! item itself lives in the binaries that want it; the fuzz targets do not use it (ASan instead).

use std::alloc::{GlobalAlloc, Layout, System};
use std::cell::Cell;

pub struct VAlloc;

const QN: usize = 512;

thread_local! {
    /// depth of "inside a call into the crate under test"
    static SUT: Cell<u32> = const { Cell::new(0) };
    /// depth of "inside a harness call-back made by the crate"
    static CB: Cell<u32> = const { Cell::new(0) };
    /// allocations counted (alloc + realloc) while SUT>0 && CB==0
    static COUNT: Cell<u64> = const { Cell::new(0) };
    /// fill fresh memory with 0xA5 while set
    static POISON: Cell<bool> = const { Cell::new(false) };
    /// address whose deallocation is to be deferred (set by the block-release probe)
    static QNEXT: Cell<usize> = const { Cell::new(0) };
    static QLEN: Cell<usize> = const { Cell::new(0) };
    static QUAR: [Cell<(usize, usize, usize)>; QN] = const { [const { Cell::new((0, 0, 0)) }; QN] };
    /// true if the allocator wrapper is linked into this binary (set on first alloc)
    static ACTIVE: Cell<bool> = const { Cell::new(false) };
}

unsafe impl GlobalAlloc for VAlloc {
    unsafe fn alloc(&self, layout: Layout) -> *mut u8 {
        let p = unsafe { System.alloc(layout) };
        let _ = ACTIVE.try_with(|a| a.set(true));
        if !p.is_null() {
            if POISON.try_with(|c| c.get()).unwrap_or(false) {
                unsafe { std::ptr::write_bytes(p, 0xA5, layout.size()) };
            }
            let inside = SUT.try_with(|c| c.get()).unwrap_or(0) > 0
                && CB.try_with(|c| c.get()).unwrap_or(1) == 0;
            if inside {
                let _ = COUNT.try_with(|c| c.set(c.get() + 1));
            }
        }
        p
    }

    unsafe fn dealloc(&self, ptr: *mut u8, layout: Layout) {
        let q = QNEXT.try_with(|c| c.get()).unwrap_or(0);
        if q != 0 && q == ptr as usize {
            let _ = QNEXT.try_with(|c| c.set(0));
            let n = QLEN.try_with(|c| c.get()).unwrap_or(QN);
            if n < QN {
                let ok = QUAR
                    .try_with(|a| a[n].set((ptr as usize, layout.size(), layout.align())))
                    .is_ok();
                if ok {
                    let _ = QLEN.try_with(|c| c.set(n + 1));
                    return;
                }
            }
        }
        unsafe { System.dealloc(ptr, layout) }
    }
    // realloc: default implementation (alloc + copy + dealloc), counted once through alloc.
}

pub fn allocator_active() -> bool {
    ACTIVE.with(|a| a.get())
}

/// RAII: inside a call into the crate under test.
pub struct SutGuard;
impl SutGuard {
    #[inline]
    pub fn new() -> Self {
        SUT.with(|c| c.set(c.get() + 1));
        SutGuard
    }
}
impl Drop for SutGuard {
    #[inline]
    fn drop(&mut self) {
        let _ = SUT.try_with(|c| c.set(c.get().saturating_sub(1)));
    }
}

/// RAII: inside a harness call-back (child poll/drop, task waker, probe).
pub struct CbGuard;
impl CbGuard {
    #[inline]
    pub fn new() -> Self {
        CB.with(|c| c.set(c.get() + 1));
        CbGuard
    }
}
impl Drop for CbGuard {
    #[inline]
    fn drop(&mut self) {
        let _ = CB.try_with(|c| c.set(c.get().saturating_sub(1)));
    }
}

#[inline]
pub fn sut<R>(f: impl FnOnce() -> R) -> R {
    let _g = SutGuard::new();
    f()
}

pub fn alloc_count() -> u64 {
    COUNT.with(|c| c.get())
}
pub fn set_alloc_count(n: u64) {
    COUNT.with(|c| c.set(n));
}
pub fn reset_alloc_count() {
    COUNT.with(|c| c.set(0));
}
pub fn reset_depths() {
    SUT.with(|c| c.set(0));
    CB.with(|c| c.set(0));
}
pub fn set_poison(on: bool) {
    POISON.with(|c| c.set(on));
}
/// Ask the allocator to defer the next deallocation of `ptr` to the end of the case.
pub fn quarantine_next(ptr: usize) {
    QNEXT.with(|c| c.set(ptr));
}
/// Really free everything that was quarantined on this thread.
pub fn release_quarantine() {
    QNEXT.with(|c| c.set(0));
    let n = QLEN.with(|c| c.replace(0));
    for i in 0..n {
        let (p, s, a) = QUAR.with(|q| q[i].get());
        if p != 0 {
            unsafe { System.dealloc(p as *mut u8, Layout::from_size_align_unchecked(s, a)) };
        }
    }
}
