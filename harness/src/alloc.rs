//! Counting / poisoning / quarantining global allocator (DESIGN §3.1). The `#[global_allocator]`
//! item itself lives in the binaries that want it; the fuzz targets do not use it (ASan instead).

use std::alloc::{GlobalAlloc, Layout, System};
use std::cell::Cell;

pub struct VAlloc;

const QN: usize = 512;

thread_local! {
    /// depth of "inside a call into the crate under test"
    static SUT: Cell<u32> = const { Cell::new(0) };
    /// depth of "inside a harness call-back made by the crate"
    static CB: Cell<u32> = const { Cell::new(0) };
    /// allocations counted (alloc + realloc) while SUT>0 && CB==0
    static COUNT: Cell<u64> = const { Cell::new(0) };
    /// fill fresh memory with 0xA5 while set
    static POISON: Cell<bool> = const { Cell::new(false) };
    /// address whose deallocation is to be deferred (set by the block-release probe)
    static QNEXT: Cell<usize> = const { Cell::new(0) };
    static QLEN: Cell<usize> = const { Cell::new(0) };
    static QUAR: [Cell<(usize, usize, usize)>; QN] = const { [const { Cell::new((0, 0, 0)) }; QN] };
    static OVERRUN: Cell<(usize, usize, usize)> = const { Cell::new((0, 0, 0)) };
    /// true if the allocator wrapper is linked into this binary (set on first alloc)
    static ACTIVE: Cell<bool> = const { Cell::new(false) };
}

/// bytes of guard pattern appended to every allocation; checked when the block is freed
const RZ: usize = 64;
const RZ_BYTE: u8 = 0xFD;

#[inline]
fn padded(layout: Layout) -> Layout {
    // same alignment, RZ more bytes
    unsafe { Layout::from_size_align_unchecked(layout.size() + RZ, layout.align()) }
}

unsafe impl GlobalAlloc for VAlloc {
    unsafe fn alloc(&self, layout: Layout) -> *mut u8 {
        let p = unsafe { System.alloc(padded(layout)) };
        let _ = ACTIVE.try_with(|a| a.set(true));
        if !p.is_null() {
            if POISON.try_with(|c| c.get()).unwrap_or(false) {
                unsafe { std::ptr::write_bytes(p, 0xA5, layout.size()) };
            }
            unsafe { std::ptr::write_bytes(p.add(layout.size()), RZ_BYTE, RZ) };
            let inside = SUT.try_with(|c| c.get()).unwrap_or(0) > 0
                && CB.try_with(|c| c.get()).unwrap_or(1) == 0;
            if inside {
                let _ = COUNT.try_with(|c| c.set(c.get() + 1));
            }
        }
        p
    }

    unsafe fn dealloc(&self, ptr: *mut u8, layout: Layout) {
        // guard bytes behind the block must be intact: a write past the end of an allocation
        let tail = unsafe { std::slice::from_raw_parts(ptr.add(layout.size()), RZ) };
        if let Some(off) = tail.iter().position(|&b| b != RZ_BYTE) {
            let _ = OVERRUN.try_with(|c| {
                if c.get().0 == 0 {
                    c.set((ptr as usize, layout.size(), off));
                }
            });
        }
        let q = QNEXT.try_with(|c| c.get()).unwrap_or(0);
        if q != 0 && q == ptr as usize {
            let _ = QNEXT.try_with(|c| c.set(0));
            let n = QLEN.try_with(|c| c.get()).unwrap_or(QN);
            // a block that is already quarantined is being freed a second time: swallow it
            let dup = QUAR
                .try_with(|a| (0..n.min(QN)).any(|i| a[i].get().0 == ptr as usize))
                .unwrap_or(false);
            if dup {
                return;
            }
            if n < QN {
                let ok = QUAR
                    .try_with(|a| a[n].set((ptr as usize, layout.size(), layout.align())))
                    .is_ok();
                if ok {
                    let _ = QLEN.try_with(|c| c.set(n + 1));
                    // poison: any later write into the freed block is found by check_quarantine()
                    unsafe { std::ptr::write_bytes(ptr, 0xDD, layout.size() + RZ) };
                    return;
                }
            }
        }
        unsafe { System.dealloc(ptr, padded(layout)) }
    }
    // realloc: default implementation (alloc + copy + dealloc), counted once through alloc.
}

/// (address, size, offset into the guard zone) of the first allocation found with a damaged guard zone
pub fn take_overrun() -> Option<(usize, usize, usize)> {
    let v = OVERRUN.with(|c| c.replace((0, 0, 0)));
    if v.0 == 0 {
        None
    } else {
        Some(v)
    }
}

pub fn allocator_active() -> bool {
    ACTIVE.with(|a| a.get())
}

/// RAII: inside a call into the crate under test.
pub struct SutGuard;
impl SutGuard {
    #[inline]
    pub fn new() -> Self {
        SUT.with(|c| c.set(c.get() + 1));
        SutGuard
    }
}
impl Drop for SutGuard {
    #[inline]
    fn drop(&mut self) {
        let _ = SUT.try_with(|c| c.set(c.get().saturating_sub(1)));
    }
}

/// RAII: inside a harness call-back (child poll/drop, task waker, probe).
pub struct CbGuard;
impl CbGuard {
    #[inline]
    pub fn new() -> Self {
        CB.with(|c| c.set(c.get() + 1));
        CbGuard
    }
}
impl Drop for CbGuard {
    #[inline]
    fn drop(&mut self) {
        let _ = CB.try_with(|c| c.set(c.get().saturating_sub(1)));
    }
}

/// RAII: the harness itself calls into the crate from inside a call-back (cloning, invoking or
/// dropping a child waker runs the crate's waker vtable): count allocations made there.
pub struct ReenterGuard(u32);
impl ReenterGuard {
    #[inline]
    pub fn new() -> Self {
        let cb = CB.with(|c| c.replace(0));
        SUT.with(|c| c.set(c.get() + 1));
        ReenterGuard(cb)
    }
}
impl Drop for ReenterGuard {
    #[inline]
    fn drop(&mut self) {
        let _ = SUT.try_with(|c| c.set(c.get().saturating_sub(1)));
        let _ = CB.try_with(|c| c.set(self.0));
    }
}

/// run `f` (a waker clone / wake / drop) as crate code for the purpose of allocation counting
#[inline]
pub fn vt<R>(f: impl FnOnce() -> R) -> R {
    let _g = ReenterGuard::new();
    f()
}

#[inline]
pub fn sut<R>(f: impl FnOnce() -> R) -> R {
    let _g = SutGuard::new();
    f()
}

pub fn alloc_count() -> u64 {
    COUNT.with(|c| c.get())
}
pub fn set_alloc_count(n: u64) {
    COUNT.with(|c| c.set(n));
}
pub fn reset_alloc_count() {
    COUNT.with(|c| c.set(0));
}
pub fn reset_depths() {
    SUT.with(|c| c.set(0));
    CB.with(|c| c.set(0));
}
pub fn set_poison(on: bool) {
    POISON.with(|c| c.set(on));
}
/// Ask the allocator to defer the next deallocation of `ptr` to the end of the case.
pub fn quarantine_next(ptr: usize) {
    QNEXT.with(|c| c.set(ptr));
}
/// Look for writes into quarantined (freed, poisoned) blocks: (block address, size, offset, byte found).
pub fn check_quarantine() -> Vec<(usize, usize, usize, u8)> {
    let n = QLEN.with(|c| c.get());
    let mut out = Vec::new();
    for i in 0..n.min(QN) {
        let (p, s, _a) = QUAR.with(|q| q[i].get());
        if p == 0 {
            continue;
        }
        let bytes = unsafe { std::slice::from_raw_parts(p as *const u8, s + RZ) };
        if let Some(off) = bytes.iter().position(|&b| b != 0xDD) {
            out.push((p, s, off, bytes[off]));
        }
    }
    out
}

/// Really free everything that was quarantined on this thread.
pub fn release_quarantine() {
    QNEXT.with(|c| c.set(0));
    let n = QLEN.with(|c| c.replace(0));
    for i in 0..n {
        let (p, s, a) = QUAR.with(|q| q[i].get());
        if p != 0 {
            unsafe { System.dealloc(p as *mut u8, Layout::from_size_align_unchecked(s + RZ, a)) };
        }
    }
}
