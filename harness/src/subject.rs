//! Uniform face of the 13 subjects (collections, merges, adapters, joins) for the interpreter.

use crate::alloc::sut;
use crate::script::*;
use crate::world::*;
use futures_buffered::*;
use futures_core::{FusedFuture, FusedStream, Stream};
use serde::{Deserialize, Serialize};
use std::future::Future;
use std::pin::Pin;
use std::task::{Context, Poll};

#[derive(Clone, Copy, Debug, PartialEq, Eq, Hash, Serialize, Deserialize)]
pub enum Subj {
    UB,
    UU,
    OB,
    OU,
    MB,
    MU,
    BU,
    BO,
    TBU,
    TBO,
    FE,
    JA,
    TJA,
}

impl Subj {
    pub const ALL: [Subj; 13] = [
        Subj::UB,
        Subj::UU,
        Subj::OB,
        Subj::OU,
        Subj::MB,
        Subj::MU,
        Subj::BU,
        Subj::BO,
        Subj::TBU,
        Subj::TBO,
        Subj::FE,
        Subj::JA,
        Subj::TJA,
    ];
    pub fn is_collection(self) -> bool {
        matches!(self, Subj::UB | Subj::UU | Subj::OB | Subj::OU)
    }
    pub fn is_merge(self) -> bool {
        matches!(self, Subj::MB | Subj::MU)
    }
    pub fn is_adapter(self) -> bool {
        matches!(self, Subj::BU | Subj::BO | Subj::TBU | Subj::TBO | Subj::FE)
    }
    pub fn is_join(self) -> bool {
        matches!(self, Subj::JA | Subj::TJA)
    }
    pub fn is_ordered(self) -> bool {
        matches!(self, Subj::OB | Subj::OU | Subj::BO | Subj::TBO)
    }
    pub fn is_unbounded(self) -> bool {
        matches!(self, Subj::UU | Subj::OU | Subj::MU)
    }
    pub fn is_try(self) -> bool {
        matches!(self, Subj::TBU | Subj::TBO | Subj::TJA)
    }
    pub fn name(self) -> &'static str {
        match self {
            Subj::UB => "FuturesUnorderedBounded",
            Subj::UU => "FuturesUnordered",
            Subj::OB => "FuturesOrderedBounded",
            Subj::OU => "FuturesOrdered",
            Subj::MB => "MergeBounded",
            Subj::MU => "MergeUnbounded",
            Subj::BU => "buffered_unordered",
            Subj::BO => "buffered_ordered",
            Subj::TBU => "try_buffered_unordered",
            Subj::TBO => "try_buffered_ordered",
            Subj::FE => "for_each_concurrent",
            Subj::JA => "join_all",
            Subj::TJA => "try_join_all",
        }
    }
}

pub enum Out {
    Tok(Token),
    Res(Result<Token, ErrTok>),
    Vec(Vec<Token>),
    ResVec(Result<Vec<Token>, ErrTok>),
    PVec(Vec<PTok>),
    PResVec(Result<Vec<PTok>, ErrTok>),
    /// a single output without drop glue (collections over `ScriptFut<PlainND>`)
    PTok(PTok),
}

pub enum PollOut {
    Pending,
    /// `Ready(None)` of a stream / `Ready(())` of for_each_concurrent
    Done,
    Item(Out),
}

#[derive(Clone, Copy, Debug, PartialEq, Eq)]
pub enum PushHow {
    Back,
    Front,
    TryBack,
    TryFront,
}

pub enum PushOut {
    Accepted,
    /// try_push* handed something back: (id of what came back, the value itself, still undropped)
    Refused(Cid, Box<dyn std::any::Any>),
}

#[derive(Clone, Debug, Default)]
pub struct Obs {
    pub len: Option<usize>,
    pub is_empty: Option<bool>,
    pub hint: Option<(usize, Option<usize>)>,
    pub term: Option<bool>,
    pub cap: Option<usize>,
    /// (capacity, len, block) per group, or the single block for bounded subjects
    pub groups: Option<Vec<(usize, usize, usize)>>,
    pub indices: Option<(usize, usize)>,
}

pub trait Subject {
    fn poll(&mut self, cx: &mut Context<'_>) -> PollOut;
    /// `child` is the id of a freshly created (not yet accepted) child
    fn push(&mut self, _child: Cid, _how: PushHow) -> PushOut {
        panic!("harness bug: push on a subject without push")
    }
    /// `Extend::extend` with freshly created children; false = the subject has no `Extend`
    fn extend(&mut self, _children: &[Cid]) -> bool {
        false
    }
    fn obs(&self) -> Obs;
    fn relocate(self: Box<Self>) -> Box<dyn Subject>;
    fn can_move(&self) -> bool {
        true
    }
}

fn st<T>(p: Poll<Option<T>>, f: impl FnOnce(T) -> Out) -> PollOut {
    match p {
        Poll::Pending => PollOut::Pending,
        Poll::Ready(None) => PollOut::Done,
        Poll::Ready(Some(x)) => PollOut::Item(f(x)),
    }
}

/// The flavours of scripted future a collection can be instantiated with.
pub trait ChildFut: Future + Sized + 'static {
    fn make(id: Cid) -> Self;
    fn cid(&self) -> Cid;
    fn wrap(out: Self::Output) -> Out;
    /// false = this type has no destructor, its drop is not observable
    const TRACKED: bool;
}
impl ChildFut for ScriptFut<Plain> {
    fn make(id: Cid) -> Self {
        ScriptFut::new(id)
    }
    fn cid(&self) -> Cid {
        self.id
    }
    fn wrap(out: Token) -> Out {
        Out::Tok(out)
    }
    const TRACKED: bool = true;
}
/// future without drop glue, output with drop glue
impl ChildFut for NdFut<Plain> {
    fn make(id: Cid) -> Self {
        NdFut::new(id)
    }
    fn cid(&self) -> Cid {
        self.id
    }
    fn wrap(out: Token) -> Out {
        Out::Tok(out)
    }
    const TRACKED: bool = false;
}
/// future with drop glue, output without
impl ChildFut for ScriptFut<PlainND> {
    fn make(id: Cid) -> Self {
        ScriptFut::new(id)
    }
    fn cid(&self) -> Cid {
        self.id
    }
    fn wrap(out: PTok) -> Out {
        Out::PTok(out)
    }
    const TRACKED: bool = true;
}

/// The flavours of scripted merge source.
pub trait ChildSrc: Stream<Item = Token> + Unpin + Sized + 'static {
    fn make(id: Cid) -> Self;
    fn cid(&self) -> Cid;
    const TRACKED: bool;
}
impl ChildSrc for ScriptStream<Src> {
    fn make(id: Cid) -> Self {
        ScriptStream::new(id)
    }
    fn cid(&self) -> Cid {
        self.id
    }
    const TRACKED: bool = true;
}
impl ChildSrc for NdStream<Src> {
    fn make(id: Cid) -> Self {
        NdStream::new(id)
    }
    fn cid(&self) -> Cid {
        self.id
    }
    const TRACKED: bool = false;
}

macro_rules! relocate {
    () => {
        fn relocate(self: Box<Self>) -> Box<dyn Subject> {
            let v = *self;
            let pad = Box::new([0u8; 64]);
            let b = Box::new(v);
            drop(pad);
            b
        }
    };
}

// ---- FuturesUnorderedBounded -------------------------------------------------------------------
pub struct SUB<F: ChildFut>(pub FuturesUnorderedBounded<F>);
impl<F: ChildFut> Subject for SUB<F> {
    fn poll(&mut self, cx: &mut Context<'_>) -> PollOut {
        st(Pin::new(&mut self.0).poll_next(cx), F::wrap)
    }
    fn push(&mut self, child: Cid, how: PushHow) -> PushOut {
        let f = F::make(child);
        match how {
            PushHow::Back => {
                self.0.push(f);
                PushOut::Accepted
            }
            PushHow::TryBack => match self.0.try_push(f) {
                Ok(()) => PushOut::Accepted,
                Err(f) => {
                    let _cb = crate::alloc::CbGuard::new();
                    PushOut::Refused(f.cid(), Box::new(f))
                }
            },
            _ => {
                std::mem::forget(f);
                panic!("harness bug: unsupported push flavour")
            }
        }
    }
    fn obs(&self) -> Obs {
        Obs {
            len: Some(self.0.len()),
            is_empty: Some(self.0.is_empty()),
            hint: Some(self.0.size_hint()),
            term: Some(self.0.is_terminated()),
            cap: Some(self.0.capacity()),
            groups: Some(vec![(self.0.capacity(), self.0.len(), self.0.verif_block())]),
            indices: None,
        }
    }
    relocate!();
}

// ---- FuturesUnordered --------------------------------------------------------------------------
pub struct SUU<F: ChildFut>(pub FuturesUnordered<F>);
impl<F: ChildFut> Subject for SUU<F> {
    fn poll(&mut self, cx: &mut Context<'_>) -> PollOut {
        st(Pin::new(&mut self.0).poll_next(cx), F::wrap)
    }
    fn push(&mut self, child: Cid, how: PushHow) -> PushOut {
        let f = F::make(child);
        match how {
            PushHow::Back | PushHow::TryBack => {
                self.0.push(f);
                PushOut::Accepted
            }
            _ => {
                std::mem::forget(f);
                panic!("harness bug: unsupported push flavour")
            }
        }
    }
    fn obs(&self) -> Obs {
        Obs {
            len: Some(self.0.len()),
            is_empty: Some(self.0.is_empty()),
            hint: Some(self.0.size_hint()),
            term: Some(self.0.is_terminated()),
            cap: None,
            groups: Some(self.0.verif_groups()),
            indices: None,
        }
    }
    relocate!();
}

// ---- FuturesOrderedBounded ---------------------------------------------------------------------
pub struct SOB<F: ChildFut>(pub FuturesOrderedBounded<F>, pub usize);
impl<F: ChildFut> Subject for SOB<F> {
    fn poll(&mut self, cx: &mut Context<'_>) -> PollOut {
        st(Pin::new(&mut self.0).poll_next(cx), F::wrap)
    }
    fn push(&mut self, child: Cid, how: PushHow) -> PushOut {
        let f = F::make(child);
        let r = match how {
            PushHow::Back => {
                self.0.push_back(f);
                return PushOut::Accepted;
            }
            PushHow::Front => {
                self.0.push_front(f);
                return PushOut::Accepted;
            }
            PushHow::TryBack => self.0.try_push_back(f),
            PushHow::TryFront => self.0.try_push_front(f),
        };
        match r {
            Ok(()) => PushOut::Accepted,
            Err(f) => {
                    let _cb = crate::alloc::CbGuard::new();
                    PushOut::Refused(f.cid(), Box::new(f))
                }
        }
    }
    fn extend(&mut self, children: &[Cid]) -> bool {
        self.0.extend(children.iter().map(|&c| F::make(c)));
        true
    }
    fn obs(&self) -> Obs {
        Obs {
            len: Some(self.0.len()),
            is_empty: Some(self.0.is_empty()),
            hint: Some(self.0.size_hint()),
            term: Some(self.0.is_terminated()),
            cap: None,
            groups: Some(vec![(self.1, 0, self.0.verif_block())]),
            indices: Some(self.0.verif_indices()),
        }
    }
    relocate!();
}

// ---- FuturesOrdered ----------------------------------------------------------------------------
pub struct SOU<F: ChildFut>(pub FuturesOrdered<F>);
impl<F: ChildFut> Subject for SOU<F> {
    fn poll(&mut self, cx: &mut Context<'_>) -> PollOut {
        st(Pin::new(&mut self.0).poll_next(cx), F::wrap)
    }
    fn push(&mut self, child: Cid, how: PushHow) -> PushOut {
        let f = F::make(child);
        match how {
            PushHow::Back | PushHow::TryBack => self.0.push_back(f),
            PushHow::Front | PushHow::TryFront => self.0.push_front(f),
        }
        PushOut::Accepted
    }
    fn extend(&mut self, children: &[Cid]) -> bool {
        self.0.extend(children.iter().map(|&c| F::make(c)));
        true
    }
    fn obs(&self) -> Obs {
        Obs {
            len: Some(self.0.len()),
            is_empty: Some(self.0.is_empty()),
            hint: Some(self.0.size_hint()),
            term: Some(self.0.is_terminated()),
            cap: None,
            groups: Some(self.0.verif_groups()),
            indices: Some(self.0.verif_indices()),
        }
    }
    relocate!();
}

// ---- MergeBounded / MergeUnbounded -------------------------------------------------------------
pub struct SMB<S: ChildSrc>(pub MergeBounded<S>, pub usize);
impl<S: ChildSrc> Subject for SMB<S> {
    fn poll(&mut self, cx: &mut Context<'_>) -> PollOut {
        st(Pin::new(&mut self.0).poll_next(cx), Out::Tok)
    }
    fn push(&mut self, child: Cid, how: PushHow) -> PushOut {
        let s = S::make(child);
        match how {
            PushHow::Back => {
                self.0.push(s);
                PushOut::Accepted
            }
            PushHow::TryBack => match self.0.try_push(s) {
                Ok(()) => PushOut::Accepted,
                Err(s) => {
                    let _cb = crate::alloc::CbGuard::new();
                    PushOut::Refused(s.cid(), Box::new(s))
                }
            },
            _ => {
                std::mem::forget(s);
                panic!("harness bug: unsupported push flavour")
            }
        }
    }
    fn obs(&self) -> Obs {
        Obs {
            hint: Some(self.0.size_hint()),
            groups: Some(vec![(self.1, 0, self.0.verif_block())]),
            ..Obs::default()
        }
    }
    relocate!();
}

pub struct SMU<S: ChildSrc>(pub MergeUnbounded<S>);
impl<S: ChildSrc> Subject for SMU<S> {
    fn poll(&mut self, cx: &mut Context<'_>) -> PollOut {
        st(Pin::new(&mut self.0).poll_next(cx), Out::Tok)
    }
    fn push(&mut self, child: Cid, how: PushHow) -> PushOut {
        let s = S::make(child);
        match how {
            PushHow::Back | PushHow::TryBack => {
                self.0.push(s);
                PushOut::Accepted
            }
            _ => {
                std::mem::forget(s);
                panic!("harness bug: unsupported push flavour")
            }
        }
    }
    fn obs(&self) -> Obs {
        Obs {
            len: Some(self.0.len()),
            is_empty: Some(self.0.is_empty()),
            hint: Some(self.0.size_hint()),
            groups: Some(self.0.verif_groups()),
            ..Obs::default()
        }
    }
    relocate!();
}

// ---- adapters ----------------------------------------------------------------------------------
macro_rules! no_move {
    () => {
        fn relocate(self: Box<Self>) -> Box<dyn Subject> {
            self
        }
        fn can_move(&self) -> bool {
            false
        }
    };
}

pub struct SBU(pub Pin<Box<BufferUnordered<ScriptStream<UpPlain>>>>);
impl Subject for SBU {
    fn poll(&mut self, cx: &mut Context<'_>) -> PollOut {
        st(self.0.as_mut().poll_next(cx), Out::Tok)
    }
    fn obs(&self) -> Obs {
        Obs {
            hint: Some(self.0.size_hint()),
            ..Obs::default()
        }
    }
    no_move!();
}
pub struct SBO(pub Pin<Box<BufferedOrdered<ScriptStream<UpPlain>>>>);
impl Subject for SBO {
    fn poll(&mut self, cx: &mut Context<'_>) -> PollOut {
        st(self.0.as_mut().poll_next(cx), Out::Tok)
    }
    fn obs(&self) -> Obs {
        Obs {
            hint: Some(self.0.size_hint()),
            ..Obs::default()
        }
    }
    no_move!();
}
pub struct STBU(pub Pin<Box<TryBufferUnordered<ScriptStream<UpTry>>>>);
impl Subject for STBU {
    fn poll(&mut self, cx: &mut Context<'_>) -> PollOut {
        st(self.0.as_mut().poll_next(cx), Out::Res)
    }
    fn obs(&self) -> Obs {
        Obs {
            hint: Some(self.0.size_hint()),
            ..Obs::default()
        }
    }
    no_move!();
}
pub struct STBO(pub Pin<Box<TryBufferedOrdered<ScriptStream<UpTry>>>>);
impl Subject for STBO {
    fn poll(&mut self, cx: &mut Context<'_>) -> PollOut {
        st(self.0.as_mut().poll_next(cx), Out::Res)
    }
    fn obs(&self) -> Obs {
        Obs {
            hint: Some(self.0.size_hint()),
            ..Obs::default()
        }
    }
    no_move!();
}

type FeFn = fn(ScriptFut<Unit>) -> ScriptFut<Unit>;
/// `ForEachConcurrent` cannot be named outside the crate, hence the type parameter.
pub struct SFE<F>(pub Pin<Box<F>>);
impl<F: Future<Output = ()> + FusedFuture + 'static> Subject for SFE<F> {
    fn poll(&mut self, cx: &mut Context<'_>) -> PollOut {
        match self.0.as_mut().poll(cx) {
            Poll::Pending => PollOut::Pending,
            Poll::Ready(()) => PollOut::Done,
        }
    }
    fn obs(&self) -> Obs {
        Obs {
            term: Some(self.0.is_terminated()),
            ..Obs::default()
        }
    }
    no_move!();
}

// ---- joins -------------------------------------------------------------------------------------
pub struct SJA(pub JoinAll<ScriptFut<Plain>>);
impl Subject for SJA {
    fn poll(&mut self, cx: &mut Context<'_>) -> PollOut {
        match Pin::new(&mut self.0).poll(cx) {
            Poll::Pending => PollOut::Pending,
            Poll::Ready(v) => PollOut::Item(Out::Vec(v)),
        }
    }
    fn obs(&self) -> Obs {
        Obs::default()
    }
    relocate!();
}
pub struct STJA(pub TryJoinAll<ScriptFut<Try>>);
impl Subject for STJA {
    fn poll(&mut self, cx: &mut Context<'_>) -> PollOut {
        match Pin::new(&mut self.0).poll(cx) {
            Poll::Pending => PollOut::Pending,
            Poll::Ready(v) => PollOut::Item(Out::ResVec(v)),
        }
    }
    fn obs(&self) -> Obs {
        Obs::default()
    }
    relocate!();
}

/// joins over outputs without drop glue
pub struct SJAP(pub JoinAll<ScriptFut<PlainND>>);
impl Subject for SJAP {
    fn poll(&mut self, cx: &mut Context<'_>) -> PollOut {
        match Pin::new(&mut self.0).poll(cx) {
            Poll::Pending => PollOut::Pending,
            Poll::Ready(v) => PollOut::Item(Out::PVec(v)),
        }
    }
    fn obs(&self) -> Obs {
        Obs::default()
    }
    relocate!();
}
pub struct STJAP(pub TryJoinAll<ScriptFut<TryND>>);
impl Subject for STJAP {
    fn poll(&mut self, cx: &mut Context<'_>) -> PollOut {
        match Pin::new(&mut self.0).poll(cx) {
            Poll::Pending => PollOut::Pending,
            Poll::Ready(v) => PollOut::Item(Out::PResVec(v)),
        }
    }
    fn obs(&self) -> Obs {
        Obs::default()
    }
    relocate!();
}

/// joins over futures without drop glue (outputs with drop glue)
pub struct SJAN(pub JoinAll<NdFut<Plain>>);
impl Subject for SJAN {
    fn poll(&mut self, cx: &mut Context<'_>) -> PollOut {
        match Pin::new(&mut self.0).poll(cx) {
            Poll::Pending => PollOut::Pending,
            Poll::Ready(v) => PollOut::Item(Out::Vec(v)),
        }
    }
    fn obs(&self) -> Obs {
        Obs::default()
    }
    relocate!();
}
pub struct STJAN(pub TryJoinAll<NdFut<Try>>);
impl Subject for STJAN {
    fn poll(&mut self, cx: &mut Context<'_>) -> PollOut {
        match Pin::new(&mut self.0).poll(cx) {
            Poll::Pending => PollOut::Pending,
            Poll::Ready(v) => PollOut::Item(Out::ResVec(v)),
        }
    }
    fn obs(&self) -> Obs {
        Obs::default()
    }
    relocate!();
}

// ---- construction ------------------------------------------------------------------------------

/// How a subject is built.
#[derive(Clone, Debug, PartialEq, Eq, Serialize, Deserialize, Default)]
pub struct Cfg {
    /// bounded capacity / adapter limit n / argument of with_capacity
    pub cap: usize,
    /// collections: 0 = new(cap) resp. new(); 1 = with_capacity(cap) (unbounded only); 2 = collect(initial);
    /// joins: 2 = outputs with drop glue, 3 = outputs without drop glue, 4 = futures without drop glue
    pub ctor: u8,
    /// children present from the start (collect / join inputs / merge sources)
    pub initial: Vec<Plan>,
    /// ordered collections: start value of both position counters
    pub start_index: u64,
    /// adapters: upstream script; `Item` steps take their future's plan from `up_plans` in order
    pub upstream: Vec<SStep>,
    pub up_plans: Vec<Plan>,
    pub up_hint: u8,
    pub up_infinite: bool,
    /// collect() from an iterator whose size_hint lower bound is below its real length
    #[serde(default)]
    pub inexact_iter: bool,
    /// with `inexact_iter`: 0 = the lower bound is 0 (a filter), k > 0 = the iterator announces `len - k` (a partly
    /// sized iterator, e.g. `sized.chain(filtered)`), upper bound unknown
    #[serde(default)]
    pub iter_short: u16,
    /// collections: 0 = futures and outputs with drop glue, 1 = futures without drop glue, 2 = outputs without
    #[serde(default)]
    pub child_kind: u8,
}

fn initial_ids(cfg: &Cfg, role: Role) -> Vec<Cid> {
    w(|x| {
        cfg.initial
            .iter()
            .map(|p| {
                let id = x.new_child(role, p);
                x.accept(id);
                id
            })
            .collect()
    })
}

/// an honest but inexact iterator: announces `short` items fewer than it will yield, upper bound unknown
struct Hinted {
    inner: std::vec::IntoIter<Cid>,
    short: usize,
}
impl Iterator for Hinted {
    type Item = Cid;
    fn next(&mut self) -> Option<Cid> {
        self.inner.next()
    }
    fn size_hint(&self) -> (usize, Option<usize>) {
        (self.inner.len().saturating_sub(self.short), None)
    }
}

/// `v.into_iter()`, optionally behind a filter that keeps everything but makes the size_hint lower bound 0, or
/// behind an iterator that under-announces its length by `short`
fn it(v: Vec<Cid>, inexact: (bool, u16)) -> Box<dyn Iterator<Item = Cid>> {
    match inexact {
        (false, _) => Box::new(v.into_iter()),
        (true, 0) => Box::new(v.into_iter().filter(|_| true)),
        (true, k) => Box::new(Hinted { inner: v.into_iter(), short: k as usize }),
    }
}

fn make_upstream<S: SKind>(cfg: &Cfg, limit: usize, ordered: bool) -> ScriptStream<S> {
    let plan = Plan {
        script: cfg.upstream.clone(),
        infinite: cfg.up_infinite,
        stash: 1,
        ..Plan::default()
    };
    let id = w(|x| {
        let id = x.new_child(Role::Upstream, &plan);
        x.children[id as usize].accepted = true;
        x.children[id as usize].upstream_kind = cfg.up_hint;
        x.up_plans = cfg.up_plans.clone();
        x.adapter = true;
        x.ordered_adapter = ordered;
        x.limit = limit;
        id
    });
    ScriptStream::new(id)
}

fn build_coll<F: ChildFut>(subj: Subj, cfg: &Cfg) -> Box<dyn Subject> {
    let cap = cfg.cap;
    let ids = if cfg.ctor == 2 { initial_ids(cfg, Role::Fut) } else { Vec::new() };
    if !F::TRACKED {
        w(|x| x.untracked_futs = true);
        w(|x| {
            for &i in &ids {
                x.children[i as usize].no_drop_glue = true;
            }
        });
    }
    let inexact = (cfg.inexact_iter, cfg.iter_short);
    match subj {
        Subj::UB => {
            if cfg.ctor == 2 {
                Box::new(SUB::<F>(sut(|| it(ids, inexact).map(F::make).collect())))
            } else {
                Box::new(SUB::<F>(sut(|| FuturesUnorderedBounded::new(cap))))
            }
        }
        Subj::UU => match cfg.ctor {
            2 => Box::new(SUU::<F>(sut(|| it(ids, inexact).map(F::make).collect()))),
            1 => Box::new(SUU::<F>(sut(|| FuturesUnordered::with_capacity(cap)))),
            _ => Box::new(SUU::<F>(sut(FuturesUnordered::new))),
        },
        Subj::OB => {
            if cfg.ctor == 2 {
                let n = ids.len();
                Box::new(SOB::<F>(sut(|| it(ids, inexact).map(F::make).collect()), n))
            } else {
                let mut q = sut(|| FuturesOrderedBounded::new(cap));
                if cfg.start_index != 0 {
                    q.verif_seed_indices(cfg.start_index as usize);
                }
                Box::new(SOB::<F>(q, cap))
            }
        }
        _ => match cfg.ctor {
            2 => Box::new(SOU::<F>(sut(|| it(ids, inexact).map(F::make).collect()))),
            1 => {
                let mut q = sut(|| FuturesOrdered::with_capacity(cap));
                if cfg.start_index != 0 {
                    q.verif_seed_indices(cfg.start_index as usize);
                }
                Box::new(SOU::<F>(q))
            }
            _ => {
                let mut q = sut(FuturesOrdered::new);
                if cfg.start_index != 0 {
                    q.verif_seed_indices(cfg.start_index as usize);
                }
                Box::new(SOU::<F>(q))
            }
        },
    }
}

fn build_merge<S: ChildSrc>(subj: Subj, cfg: &Cfg) -> Box<dyn Subject> {
    if !S::TRACKED {
        w(|x| x.untracked_srcs = true);
    }
    let ids = if subj == Subj::MB || cfg.ctor == 2 { initial_ids(cfg, Role::Source) } else { Vec::new() };
    if !S::TRACKED {
        w(|x| {
            for &i in &ids {
                x.children[i as usize].no_drop_glue = true;
            }
        });
    }
    if subj == Subj::MB {
        let n = ids.len();
        Box::new(SMB::<S>(sut(|| it(ids, (cfg.inexact_iter, cfg.iter_short)).map(S::make).collect()), n))
    } else if cfg.ctor == 2 {
        Box::new(SMU::<S>(sut(|| it(ids, (cfg.inexact_iter, cfg.iter_short)).map(S::make).collect())))
    } else {
        Box::new(SMU::<S>(sut(MergeUnbounded::new)))
    }
}

/// Build the subject. Runs constructor code of the crate inside `sut`. May panic (e.g. D1) - the
/// caller wraps it in catch_unwind.
pub fn build(subj: Subj, cfg: &Cfg) -> Box<dyn Subject> {
    let cap = cfg.cap;
    match subj {
        Subj::UB | Subj::UU | Subj::OB | Subj::OU => match cfg.child_kind {
            1 => build_coll::<NdFut<Plain>>(subj, cfg),
            2 => build_coll::<ScriptFut<PlainND>>(subj, cfg),
            _ => build_coll::<ScriptFut<Plain>>(subj, cfg),
        },
        Subj::MB | Subj::MU => {
            if cfg.child_kind == 1 {
                build_merge::<NdStream<Src>>(subj, cfg)
            } else {
                build_merge::<ScriptStream<Src>>(subj, cfg)
            }
        }
        Subj::BU => {
            let up = make_upstream::<UpPlain>(cfg, cap, false);
            Box::new(SBU(Box::pin(sut(|| up.buffered_unordered(cap)))))
        }
        Subj::BO => {
            let up = make_upstream::<UpPlain>(cfg, cap, true);
            Box::new(SBO(Box::pin(sut(|| up.buffered_ordered(cap)))))
        }
        Subj::TBU => {
            let up = make_upstream::<UpTry>(cfg, cap, false);
            Box::new(STBU(Box::pin(sut(|| up.try_buffered_unordered(cap)))))
        }
        Subj::TBO => {
            let up = make_upstream::<UpTry>(cfg, cap, true);
            Box::new(STBO(Box::pin(sut(|| up.try_buffered_ordered(cap)))))
        }
        Subj::FE => {
            let up = make_upstream::<UpUnit>(cfg, cap, false);
            fn ident(f: ScriptFut<Unit>) -> ScriptFut<Unit> {
                f
            }
            Box::new(SFE(Box::pin(sut(|| up.for_each_concurrent(cap, ident as FeFn)))))
        }
        Subj::JA => {
            let ids = initial_ids(cfg, Role::Fut);
            if cfg.ctor == 3 {
                Box::new(SJAP(sut(|| join_all(it(ids, (cfg.inexact_iter, cfg.iter_short)).map(ScriptFut::<PlainND>::new)))))
            } else if cfg.ctor == 4 {
                w(|x| {
                    for &i in &ids {
                        x.children[i as usize].no_drop_glue = true;
                    }
                });
                Box::new(SJAN(sut(|| join_all(it(ids, (cfg.inexact_iter, cfg.iter_short)).map(NdFut::<Plain>::new)))))
            } else {
                Box::new(SJA(sut(|| join_all(it(ids, (cfg.inexact_iter, cfg.iter_short)).map(ScriptFut::<Plain>::new)))))
            }
        }
        Subj::TJA => {
            let ids = initial_ids(cfg, Role::Fut);
            if cfg.ctor == 3 {
                Box::new(STJAP(sut(|| try_join_all(it(ids, (cfg.inexact_iter, cfg.iter_short)).map(ScriptFut::<TryND>::new)))))
            } else if cfg.ctor == 4 {
                w(|x| {
                    for &i in &ids {
                        x.children[i as usize].no_drop_glue = true;
                    }
                });
                Box::new(STJAN(sut(|| try_join_all(it(ids, (cfg.inexact_iter, cfg.iter_short)).map(NdFut::<Try>::new)))))
            } else {
                Box::new(STJA(sut(|| try_join_all(it(ids, (cfg.inexact_iter, cfg.iter_short)).map(ScriptFut::<Try>::new)))))
            }
        }
    }
}
