//! proptest strategies: constructive generators (no filtering) for cases, shaped per property.

use crate::ops::*;
use crate::subject::*;
use crate::world::*;
use proptest::collection::vec;
use proptest::prelude::*;
use proptest::strategy::Union;

/// generation profile of one property
#[derive(Clone, Debug)]
pub struct Prof {
    pub prop: u32,
    pub subjects: Vec<(u32, Subj)>,
    pub max_ops: usize,
    /// weight of forever-self-waking children (out of 100)
    pub p_forever: u32,
    /// weight (0..100) of the "large population" shape
    pub big: u32,
    /// weight of the adversarial (starvation) shape
    pub adversarial: u32,
    /// weight of the oscillation shape (C18)
    pub oscillate: u32,
    /// weight of the "head of line stalls" shape for ordered adapters / collections
    pub head_stall: u32,
    /// weight of early DropSubject ops
    pub early_drop: u32,
    /// allow FE with limit 0
    pub fe_zero: bool,
    /// weight of Settle ops
    pub settle: u32,
    /// weight of the "capacity / limit above 1024" shape
    pub huge: u32,
}

pub fn profile(prop: u32) -> Prof {
    use Subj::*;
    let all: Vec<(u32, Subj)> = Subj::ALL.iter().map(|s| (1, *s)).collect();
    let base = Prof {
        prop,
        subjects: all.clone(),
        max_ops: 40,
        p_forever: 4,
        big: 10,
        adversarial: 0,
        oscillate: 0,
        head_stall: 5,
        early_drop: 1,
        fe_zero: false,
        settle: 2,
        huge: 1,
    };
    match prop {
        1 => Prof {
            subjects: vec![
                (4, UB), (5, UU), (2, OB), (3, OU), (2, MB), (3, MU), (1, BU), (1, BO), (1, TBU), (1, TBO), (1, FE), (1, JA), (1, TJA),
            ],
            big: 20,
            p_forever: 8,
            ..base
        },
        2 => Prof {
            subjects: vec![(3, UB), (5, UU), (3, OB), (4, OU)],
            huge: 1,
            big: 20,
            ..base
        },
        3 => Prof {
            subjects: vec![(5, UB), (5, UU), (1, OB), (2, OU), (2, MB), (3, MU), (1, BU), (1, JA)],
            early_drop: 6,
            ..base
        },
        4 => Prof {
            subjects: vec![(5, OB), (5, OU), (2, BO), (2, TBO), (1, JA), (1, TJA)],
            head_stall: 15,
            ..base
        },
        5 => base,
        6 => Prof {
            early_drop: 10,
            ..base
        },
        7 => Prof {
            subjects: vec![(1, JA), (2, TJA)],
            max_ops: 30,
            ..base
        },
        8 => Prof {
            subjects: vec![(3, UB), (6, UU), (2, OB), (4, OU), (2, MB), (5, MU), (1, JA), (1, TJA), (1, BU), (1, BO)],
            big: 25,
            ..base
        },
        9 => Prof {
            huge: 2,
            subjects: vec![(2, BU), (2, BO), (2, TBU), (2, TBO), (2, FE)],
            ..base
        },
        10 => Prof {
            huge: 1,
            subjects: vec![(2, BU), (2, BO), (2, TBU), (2, TBO), (3, FE)],
            fe_zero: true,
            ..base
        },
        11 => Prof {
            subjects: vec![(2, MB), (3, MU)],
            big: 20,
            ..base
        },
        12 => Prof {
            subjects: vec![(3, UB), (3, UU), (2, OB), (2, OU), (2, MB), (2, MU), (1, BU), (1, BO), (1, TBU), (1, TBO), (1, FE), (1, JA)],
            ..base
        },
        13 => Prof {
            subjects: vec![(3, UB), (6, UU), (2, OB), (4, OU), (3, MB), (6, MU), (1, BU), (1, BO), (1, FE), (1, JA)],
            adversarial: 60,
            p_forever: 30,
            big: 15,
            ..base
        },
        14 => Prof {
            subjects: vec![(3, UB), (4, UU), (2, OB), (3, OU), (2, MB), (3, MU), (1, BU), (1, BO), (1, TBU), (1, TBO), (1, FE), (1, JA)],
            settle: 12,
            big: 20,
            ..base
        },
        15 => Prof {
            huge: 1,
            subjects: vec![(4, UB), (4, OB), (3, OU), (3, UU), (2, MB), (1, MU)],
            ..base
        },
        16 => Prof {
            subjects: vec![(1, BO), (1, TBO)],
            head_stall: 50,
            ..base
        },
        17 => Prof {
            subjects: vec![(1, UB), (1, UU), (1, OB), (1, OU), (1, MB), (1, MU), (3, BU), (3, BO), (3, TBU), (3, TBO)],
            ..base
        },
        18 => Prof {
            subjects: vec![(2, UB), (2, MB), (2, BU), (2, TBU), (2, FE), (1, JA), (1, TJA), (4, UU), (4, OU), (4, MU)],
            oscillate: 60,
            big: 15,
            huge: 3,
            ..base
        },
        _ => base,
    }
}

fn sel() -> impl Strategy<Value = u16> {
    prop_oneof![3 => Just(0u16), 2 => Just(u16::MAX), 6 => any::<u16>()]
}

fn action() -> impl Strategy<Value = Option<Action>> {
    prop_oneof![
        88 => Just(None),
        3 => sel().prop_map(|s| Some(Action::WakeRef(s))),
        2 => sel().prop_map(|s| Some(Action::WakeVal(s))),
        2 => sel().prop_map(|s| Some(Action::CloneStash(s))),
        2 => sel().prop_map(|s| Some(Action::DropStash(s))),
        3 => sel().prop_map(|s| Some(Action::Complete(s))),
    ]
}

fn self_wake(p_forever: u32) -> impl Strategy<Value = u8> {
    prop_oneof![
        60 => Just(0u8),
        (30u32.saturating_sub(p_forever / 2)).max(1) => 1u8..4,
        p_forever.max(1) => Just(255u8),
    ]
}

fn script(max: usize) -> impl Strategy<Value = Vec<SStep>> {
    vec(
        prop_oneof![6 => Just(SStep::Item), 2 => Just(SStep::Pend(true)), 2 => Just(SStep::Pend(false))],
        0..max,
    )
}

#[derive(Clone, Copy)]
pub struct PlanCtx {
    /// joins only: some inputs panic in their first polls (the caller catches the unwind and polls again)
    can_panic: bool,
    source: bool,
    can_fail: bool,
    p_forever: u32,
    p_ready: u32,
    p_infinite: u32,
}

pub fn plan(c: PlanCtx) -> BoxedStrategy<Plan> {
    let ready = prop::bool::weighted((c.p_ready as f64 / 100.0).clamp(0.0, 1.0));
    let fail = if c.can_fail { prop::bool::weighted(0.25).boxed() } else { Just(false).boxed() };
    let scr = if c.source { script(7).boxed() } else { Just(Vec::new()).boxed() };
    let inf = if c.source && c.p_infinite > 0 {
        prop::bool::weighted(c.p_infinite as f64 / 100.0).boxed()
    } else {
        Just(false).boxed()
    };
    let pan = if c.can_panic { prop_oneof![12 => Just(0u8), 1 => 1u8..3].boxed() } else { Just(0u8).boxed() };
    (
        ready,
        fail,
        self_wake(c.p_forever),
        prop_oneof![3 => Just(1u8), 1 => Just(2u8)],
        prop::bool::weighted(0.1),
        action(),
        action(),
        scr,
        inf,
        pan,
    )
        .prop_map(|(ready, fail, self_wake, stash, woc, on_poll, on_drop, script, infinite, panic_polls)| Plan {
            ready,
            fail,
            self_wake,
            stash,
            wake_on_complete: woc,
            on_poll,
            on_drop,
            script,
            infinite,
            panic_polls,
        })
        .boxed()
}

fn waker_idx() -> impl Strategy<Value = u8> {
    // 0..2 pooled waker objects, 3..5 a fresh waker object for the same task
    prop_oneof![6 => Just(0u8), 2 => Just(1u8), 2 => Just(2u8), 2 => Just(3u8), 1 => Just(4u8)]
}

fn cap_small() -> impl Strategy<Value = usize> {
    prop_oneof![
        3 => Just(0usize), 4 => Just(1usize), 4 => Just(2usize), 8 => 3usize..9,
        2 => 9usize..33,
    ]
}
fn cap_any() -> impl Strategy<Value = usize> {
    prop_oneof![
        2 => Just(0usize), 3 => Just(1usize), 3 => Just(2usize), 8 => 3usize..9,
        3 => 9usize..61, 2 => Just(61usize), 2 => Just(62usize), 2 => Just(63usize), 3 => 64usize..131,
        1 => 131usize..300,
    ]
}

fn start_index() -> impl Strategy<Value = u64> {
    const MSB: u64 = 1 << 63;
    prop_oneof![
        3 => Just(0u64),
        2 => 1u64..1000,
        3 => (0u64..40).prop_map(|k| MSB - k),
        3 => (0u64..40).prop_map(|k| MSB + k),
        3 => (0u64..40).prop_map(|k| u64::MAX - k),
        1 => (0u64..40).prop_map(|k| MSB / 2 + k),
        2 => any::<u64>(),
    ]
}

/// the op alphabet of a subject class, with weights shaped by the profile
fn op(subj: Subj, prof: &Prof, pc: PlanCtx) -> BoxedStrategy<Op> {
    let pl = plan(pc);
    let mut v: Vec<(u32, BoxedStrategy<Op>)> = Vec::new();
    let coll = subj.is_collection();
    let merge = subj.is_merge();
    if coll || merge {
        v.push((10, pl.clone().prop_map(Op::Push).boxed()));
        v.push((6, pl.clone().prop_map(Op::TryPush).boxed()));
        v.push((3, (1u8..12, pl.clone()).prop_map(|(k, p)| Op::PushMany(k, p)).boxed()));
        if subj.is_ordered() {
            v.push((3, (1u8..10, pl.clone()).prop_map(|(k, p)| Op::Extend(k, p)).boxed()));
            v.push((6, pl.clone().prop_map(Op::PushFront).boxed()));
            v.push((3, pl.clone().prop_map(Op::TryPushFront).boxed()));
        }
        v.push((2, (1u16..6, pl.clone()).prop_map(|(k, p)| Op::Refill(k, p)).boxed()));
    }
    v.push((14, waker_idx().prop_map(Op::Poll).boxed()));
    v.push((4, (waker_idx(), 1u8..8).prop_map(|(k, n)| Op::PollMany(k, n)).boxed()));
    v.push((6, (waker_idx(), 1u8..12).prop_map(|(k, n)| Op::Exec(k, n)).boxed()));
    v.push((5, sel().prop_map(Op::SetReady).boxed()));
    v.push((10, sel().prop_map(Op::Complete).boxed()));
    v.push((3, (sel(), 1u8..8).prop_map(|(s, k)| Op::CompleteMany(s, k)).boxed()));
    v.push((1 + prof.head_stall / 5, sel().prop_map(Op::CompleteAllBut).boxed()));
    v.push((8, (sel(), 0u8..5).prop_map(|(s, h)| Op::Wake(s, h)).boxed()));
    v.push((5, (sel(), 0u8..5).prop_map(|(s, h)| Op::WakeStale(s, h)).boxed()));
    if subj.is_adapter() {
        v.push((6, Just(Op::UpWake).boxed()));
    } else {
        v.push((2, Just(Op::Move).boxed()));
    }
    v.push((prof.settle, Just(Op::Settle).boxed()));
    v.push((prof.early_drop, Just(Op::DropSubject).boxed()));
    v.push((1, Just(Op::DropStaleWakers).boxed()));
    Union::new_weighted(v).boxed()
}

fn upstream(max: usize, try_: bool) -> impl Strategy<Value = Vec<SStep>> {
    let err_w = if try_ { 2 } else { 0 };
    let mut v: Vec<(u32, BoxedStrategy<SStep>)> = vec![
        (7, Just(SStep::Item).boxed()),
        (1, Just(SStep::Pend(true)).boxed()),
        (1, Just(SStep::Pend(false)).boxed()),
    ];
    if err_w > 0 {
        v.push((err_w, Just(SStep::Err).boxed()));
    }
    vec(Union::new_weighted(v), 0..max)
}

fn cfg_for(subj: Subj, prof: &Prof, big: bool) -> BoxedStrategy<Cfg> {
    let pc_f = PlanCtx {
        can_panic: false,
        source: false,
        can_fail: subj.is_try(),
        p_forever: prof.p_forever,
        p_ready: 35,
        p_infinite: 0,
    };
    let pc_s = PlanCtx {
        can_panic: false,
        source: true,
        can_fail: false,
        p_forever: prof.p_forever,
        p_ready: 0,
        p_infinite: if prof.adversarial > 0 { 25 } else { 3 },
    };
    let n_init = if big { 0usize..160 } else { 0usize..10 };
    match subj {
        Subj::UB | Subj::OB => {
            let cap = if big { cap_any().boxed() } else { cap_small().boxed() };
            (cap, prop_oneof![4 => Just(0u8), 1 => Just(2u8)], vec(plan(pc_f), n_init), start_index())
                .prop_map(move |(cap, ctor, initial, si)| Cfg {
                    cap,
                    ctor,
                    initial: if ctor == 2 { initial } else { Vec::new() },
                    start_index: if subj == Subj::OB && ctor != 2 { si } else { 0 },
                    ..Cfg::default()
                })
                .boxed()
        }
        Subj::UU | Subj::OU => (
            prop_oneof![2 => Just(0usize), 6 => Just(1usize), 3 => Just(2usize), 2 => Just(3usize), 2 => 4usize..40],
            prop_oneof![3 => Just(0u8), 5 => Just(1u8), 1 => Just(2u8)],
            vec(plan(pc_f), n_init),
            start_index(),
        )
            .prop_map(move |(cap, ctor, initial, si)| Cfg {
                cap,
                ctor,
                initial: if ctor == 2 { initial } else { Vec::new() },
                start_index: if subj == Subj::OU && ctor != 2 { si } else { 0 },
                ..Cfg::default()
            })
            .boxed(),
        Subj::MB => vec(plan(pc_s), if big { 0usize..100 } else { 0usize..8 })
            .prop_map(|initial| Cfg {
                cap: initial.len(),
                ctor: 2,
                initial,
                ..Cfg::default()
            })
            .boxed(),
        Subj::MU => (prop_oneof![1 => Just(0u8), 2 => Just(2u8)], vec(plan(pc_s), if big { 0usize..150 } else { 0usize..8 }))
            .prop_map(|(ctor, initial)| Cfg {
                ctor,
                initial: if ctor == 2 { initial } else { Vec::new() },
                ..Cfg::default()
            })
            .boxed(),
        Subj::BU | Subj::BO | Subj::TBU | Subj::TBO | Subj::FE => {
            let lim = if subj == Subj::FE && prof.fe_zero {
                prop_oneof![2 => Just(0usize), 6 => 1usize..6, 3 => 6usize..41].boxed()
            } else {
                prop_oneof![8 => 1usize..6, 3 => 6usize..41, 1 => 41usize..70].boxed()
            };
            let ulen = if big { 200 } else { 40 };
            (
                lim,
                upstream(ulen, subj.is_try()),
                vec(plan(PlanCtx { p_ready: 45, ..pc_f }), 0..ulen),
                0u8..5,
                prop::bool::weighted(if prof.prop == 16 { 0.25 } else { 0.03 }),
            )
                .prop_map(move |(cap, upstream, up_plans, up_hint, inf)| Cfg {
                    cap,
                    upstream,
                    up_plans,
                    up_hint,
                    up_infinite: inf && subj != Subj::FE,
                    ..Cfg::default()
                })
                .boxed()
        }
        Subj::JA | Subj::TJA => (
            vec(plan(PlanCtx { p_ready: 40, can_panic: true, ..pc_f }), if big { 0usize..140 } else { 0usize..12 }),
            prop_oneof![3 => Just(2u8), 1 => Just(3u8), 1 => Just(4u8)],
            prop::bool::weighted(0.2),
        )
            .prop_map(|(initial, ctor, inexact_iter)| Cfg {
                ctor,
                initial,
                inexact_iter,
                ..Cfg::default()
            })
            .boxed(),
    }
}

/// the generic shape: configuration + free sequence of ops
fn free_shape(subj: Subj, prof: &Prof, big: bool) -> BoxedStrategy<Case> {
    let pc = PlanCtx {
        can_panic: false,
        source: subj.is_merge(),
        can_fail: subj.is_try(),
        p_forever: prof.p_forever,
        p_ready: 35,
        p_infinite: if prof.adversarial > 0 { 20 } else { 2 },
    };
    let max_ops = if big { prof.max_ops / 2 + 6 } else { prof.max_ops };
    let o = op(subj, prof, pc);
    let ops = if big {
        // large populations: prepend bulk pushes so that group boundaries and the budget are crossed
        (vec((20u8..120, plan(pc)).prop_map(|(k, p)| Op::PushMany(k, p)), 0..3), vec(o, 0..max_ops))
            .prop_map(|(mut a, b)| {
                a.extend(b);
                a
            })
            .boxed()
    } else {
        vec(o, 0..max_ops).boxed()
    };
    let short = prop_oneof![3 => Just(0u16), 3 => 1u16..4, 1 => 1u16..200];
    (cfg_for(subj, prof, big), ops, 0u8..4, (prop::bool::weighted(0.25), short), prop_oneof![5 => Just(0u8), 1 => Just(1u8), 1 => Just(2u8)])
        .prop_map(move |(mut cfg, ops, repolls, (inexact, short), kind)| {
            if cfg.ctor == 2 && !subj.is_join() {
                cfg.inexact_iter = inexact;
            }
            if cfg.inexact_iter {
                cfg.iter_short = short;
            }
            if subj.is_collection() {
                cfg.child_kind = kind;
            } else if subj.is_merge() {
                cfg.child_kind = kind % 2;
            }
            Case {
                subj,
                cfg,
                ops,
                repolls,
            }
        })
        .boxed()
}

/// starvation shape: a busy population that is permanently ready / self-waking, a victim that is woken once,
/// then a long grind of polls (with refill where the subject allows it)
fn adversarial_shape(subj: Subj, prof: &Prof) -> BoxedStrategy<Case> {
    let busy_f = Plan {
        self_wake: 255,
        stash: 1,
        ..Plan::default()
    };
    let busy_s = Plan {
        infinite: true,
        stash: 1,
        ..Plan::default()
    };
    let quiet_f = Plan {
        stash: 1,
        ..Plan::default()
    };
    let quiet_s = Plan {
        script: vec![SStep::Pend(false), SStep::Item, SStep::Pend(false), SStep::Item],
        stash: 1,
        ..Plan::default()
    };
    let ready_f = Plan {
        ready: true,
        stash: 1,
        ..Plan::default()
    };
    let merge = subj.is_merge();
    let busy = if merge { busy_s } else { busy_f };
    let quiet = if merge { quiet_s } else { quiet_f };
    let _ = prof;
    (
        // population before the victim, after the victim
        prop_oneof![4 => 0usize..4, 4 => 4usize..20, 1 => 20usize..90],
        prop_oneof![4 => 0usize..4, 4 => 4usize..20, 1 => 20usize..90],
        // constructor flavour for unbounded subjects
        prop_oneof![3 => Just((1u8, 1usize)), 2 => Just((1u8, 2usize)), 3 => Just((0u8, 0usize)), 1 => Just((2u8, 0usize))],
        // how the grind looks
        prop_oneof![2 => Just(0u8), 3 => Just(1u8), 2 => Just(2u8)],
        0u16..60,
        waker_idx(),
        sel(),
        // first drain the tail of the population (the last, largest group empties while earlier ones stay busy)
        prop::bool::weighted(0.3),
    )
        .prop_map(move |(before, after, (ctor, ucap), style, grind, wk, vsel, drain_tail)| {
            let mut ops = Vec::new();
            let total = before + after + 1;
            // how long the grind must be to tell "late" from "never": the oracle's bound (G+1)(N+2)+4
            let (g_est, n_est) = match subj {
                Subj::UU | Subj::OU | Subj::MU => {
                    let first = if ctor == 1 && subj != Subj::MU && ucap > 0 { ucap } else if ctor == 2 && subj != Subj::MU { total.max(32) } else { 32 };
                    let (mut g, mut n, mut c) = (1usize, first, first);
                    while n < total + 2 {
                        c *= 2;
                        n += c;
                        g += 1;
                    }
                    (g, n)
                }
                _ => (1, total + 2),
            };
            let grind = ((g_est + 1) * (n_est + 2) + 12 + grind as usize).min(4000) as u16;
            let mut cfg = Cfg::default();
            let mut initial = Vec::new();
            for i in 0..total {
                initial.push(if i == before { quiet.clone() } else { busy.clone() });
            }
            match subj {
                Subj::UB | Subj::OB => {
                    cfg.cap = total + (vsel as usize % 3);
                    cfg.ctor = 0;
                    for p in &initial {
                        ops.push(Op::TryPush(p.clone()));
                    }
                }
                Subj::MB | Subj::JA | Subj::TJA => {
                    cfg.ctor = 2;
                    cfg.cap = total;
                    cfg.initial = if subj.is_join() {
                        initial.iter().map(|p| Plan { self_wake: if p.self_wake == 255 { 255 } else { 0 }, ..p.clone() }).collect()
                    } else {
                        initial.clone()
                    };
                }
                Subj::UU | Subj::OU | Subj::MU => {
                    cfg.ctor = if subj == Subj::MU && ctor == 1 { 0 } else { ctor };
                    cfg.cap = ucap;
                    if cfg.ctor == 2 {
                        cfg.initial = initial.clone();
                    } else {
                        for p in &initial {
                            ops.push(Op::Push(p.clone()));
                        }
                    }
                }
                _ => {
                    // adapters: the population comes from upstream
                    cfg.cap = total.min(60).max(1);
                    cfg.upstream = vec![SStep::Item; total];
                    cfg.up_plans = initial.clone();
                }
            }
            // first round: everybody gets polled once and parks its waker
            ops.push(Op::Exec(wk, 12));
            ops.push(Op::Exec(wk, 12));
            if drain_tail && after > 0 {
                // complete everything behind the victim: the last group(s) drain first
                let n_held = total as u32;
                let ts = (((before as u32 + 1) * 65536 + 65535) / n_held).min(65535) as u16;
                ops.push(Op::CompleteMany(ts, after.min(255) as u8));
                ops.push(Op::Exec(wk, 250));
                ops.push(Op::Exec(wk, 250));
            }
            // wake the victim (held children are in id order: the victim is at index `before`)
            let n_held = if drain_tail && after > 0 { before as u32 + 1 + (after.saturating_sub(255)) as u32 } else { total as u32 };
            let vs = if n_held <= 1 { 0 } else { ((before as u32 * 65536 + 65535) / n_held).min(65535) as u16 };
            match style {
                0 => {
                    ops.push(Op::Wake(vs, 0));
                    ops.push(Op::Refill(grind, ready_f.clone()));
                }
                1 => {
                    ops.push(Op::Refill(3, ready_f.clone()));
                    ops.push(Op::Complete(vs));
                    ops.push(Op::Refill(grind, ready_f.clone()));
                }
                _ => {
                    ops.push(Op::Complete(vs));
                    for _ in 0..(grind / 200 + 1) {
                        ops.push(Op::PollMany(wk, 250));
                        ops.push(Op::Exec(wk, 250));
                    }
                }
            }
            Case {
                subj,
                cfg,
                ops,
                repolls: 0,
            }
        })
        .boxed()
}

/// oscillation shape (C18): fill / drain patterns repeated r times
fn oscillation_shape(subj: Subj, prof: &Prof) -> BoxedStrategy<Case> {
    let pc = PlanCtx {
        can_panic: false,
        source: subj.is_merge(),
        can_fail: false,
        p_forever: 0,
        p_ready: 50,
        p_infinite: 0,
    };
    let prof = prof.clone();
    (
        cfg_for(subj, &prof, false),
        (1u8..70, prop_oneof![3 => Just(0u8), 1 => 1u8..70]), // fill size (+ an optional second batch: populations up to 138 per cycle)
        0u8..70,          // how many to complete per cycle
        3u8..40,          // repetitions
        plan(pc),
        prop::bool::ANY,  // wake storm
        waker_idx(),
        // what drains: the oldest `comp` / `comp` from a generated position / everything but one survivor
        (prop_oneof![3 => Just(0u8), 1 => Just(1u8), 1 => Just(2u8)], sel()),
    )
        .prop_map(move |(mut cfg, (fill, fill2), comp, reps, pl, storm, wk, (drain, dsel))| {
            let mut ops = Vec::new();
            if subj.is_adapter() {
                // population comes from upstream: make it long
                let n = (fill as usize) * (reps as usize).min(12);
                cfg.upstream = (0..n).map(|i| if i % 11 == 10 { SStep::Pend(true) } else { SStep::Item }).collect();
                cfg.up_plans = vec![pl.clone(); n];
                cfg.up_infinite = false;
            }
            if subj == Subj::UB || subj == Subj::OB {
                cfg.ctor = 0;
                cfg.cap = cfg.cap.max(2);
                cfg.initial.clear();
            }
            for _ in 0..reps {
                if subj.is_collection() || subj.is_merge() {
                    ops.push(Op::PushMany(fill, pl.clone()));
                    if fill2 > 0 {
                        ops.push(Op::PushMany(fill2, pl.clone()));
                    }
                }
                ops.push(Op::Exec(wk, 6));
                if storm {
                    ops.push(Op::Wake(0, 1));
                    ops.push(Op::Wake(u16::MAX, 2));
                    ops.push(Op::WakeStale(0, 2));
                }
                match drain {
                    0 => ops.push(Op::CompleteMany(0, comp)),
                    1 => ops.push(Op::CompleteMany(dsel, comp.saturating_mul(3))),
                    _ => ops.push(Op::CompleteAllBut(dsel)),
                }
                ops.push(Op::Exec(wk, 120));
            }
            Case {
                subj,
                cfg,
                ops,
                repolls: 1,
            }
        })
        .boxed()
}

/// head-of-line shape for ordered subjects: everything behind the head completes, the head stalls
fn head_stall_shape(subj: Subj, prof: &Prof) -> BoxedStrategy<Case> {
    let pc = PlanCtx {
        can_panic: false,
        source: false,
        can_fail: subj.is_try(),
        p_forever: 0,
        p_ready: 30,
        p_infinite: 0,
    };
    let prof = prof.clone();
    (cfg_for(subj, &prof, true), vec(op(subj, &prof, pc), 0..8), 1u8..6, waker_idx())
        .prop_map(move |(cfg, tail, rounds, wk)| {
            let mut ops = Vec::new();
            if subj.is_collection() {
                ops.push(Op::PushMany(12, Plan { stash: 1, ..Plan::default() }));
            }
            for _ in 0..rounds {
                ops.push(Op::Exec(wk, 4));
                ops.push(Op::CompleteAllBut(0));
                ops.push(Op::Exec(wk, 40));
            }
            ops.extend(tail);
            Case {
                subj,
                cfg,
                ops,
                repolls: 0,
            }
        })
        .boxed()
}

/// capacities / limits above 1024 (and around 2048, 4096) with that many children really in flight
fn huge_shape(subj: Subj, _prof: &Prof) -> BoxedStrategy<Case> {
    (
        // populations above the sizes a narrow integer or a fixed-size bitmask can hold: 2^10, 2^11, 2^12 and -
        // rarely, joins only (the one subject that takes any number of inputs in a single call) - 2^16
        prop_oneof![16 => 1025usize..1200, 4 => 2049usize..2120, 4 => 4097usize..4140, 1 => 65537usize..65600],
        waker_idx(),
        (0usize..80, prop_oneof![1 => Just(0usize), 1 => 1usize..4], prop::bool::ANY),
    )
        .prop_map(move |(limit, wk, (extra, small_cap, poll_between))| {
            let giant = limit > 60000;
            let limit = if giant && !subj.is_join() { 1025 + limit % 100 } else { limit };
            let pending = Plan {
                stash: 1,
                ..Plan::default()
            };
            let mut cfg = Cfg {
                cap: limit,
                ..Cfg::default()
            };
            let mut ops = Vec::new();
            let total = limit + extra;
            match subj {
                Subj::UB | Subj::OB => {
                    cfg.ctor = 0;
                    for _ in 0..(total / 250 + 1) {
                        ops.push(Op::PushMany(250, pending.clone()));
                    }
                }
                Subj::MB | Subj::JA | Subj::TJA => {
                    cfg.ctor = 2;
                    cfg.initial = vec![
                        Plan {
                            script: vec![SStep::Pend(false), SStep::Item],
                            ..pending.clone()
                        };
                        limit
                    ];
                }
                Subj::UU | Subj::OU | Subj::MU => {
                    cfg.ctor = 0;
                    if small_cap > 0 && subj != Subj::MU {
                        // started tiny: the same population now sits in 9 - 12 live groups instead of 6 - 8
                        cfg.ctor = 1;
                        cfg.cap = small_cap;
                    }
                    for _ in 0..(total / 250 + 1) {
                        ops.push(Op::PushMany(250, pending.clone()));
                        if poll_between {
                            // the children pushed so far get their first poll (and their address is on record)
                            // before the collection grows further
                            ops.push(Op::Exec(wk, 8));
                        }
                    }
                }
                _ => {
                    cfg.upstream = vec![SStep::Item; total];
                    cfg.up_plans = vec![pending.clone(); total];
                }
            }
            for _ in 0..3 {
                ops.push(Op::Exec(wk, 250));
            }
            if !giant {
                // everything is held and parked now: the task must be allowed to go to sleep
                ops.push(Op::Settle);
            }
            for _ in 0..(total / 200 + 2) {
                ops.push(Op::CompleteMany(0, 255));
                ops.push(Op::Exec(wk, 250));
                ops.push(Op::Exec(wk, 250));
            }
            Case {
                subj,
                cfg,
                ops,
                repolls: 0,
            }
        })
        .boxed()
}

pub fn case_strategy(prop: u32) -> BoxedStrategy<Case> {
    let prof = profile(prop);
    let mut per_subject: Vec<(u32, BoxedStrategy<Case>)> = Vec::new();
    for &(wt, s) in &prof.subjects {
        let mut shapes: Vec<(u32, BoxedStrategy<Case>)> = Vec::new();
        let free_w = 100u32.saturating_sub(prof.big + prof.adversarial + prof.oscillate).max(10);
        shapes.push((free_w, free_shape(s, &prof, false)));
        if prof.big > 0 {
            shapes.push((prof.big, free_shape(s, &prof, true)));
        }
        if prof.adversarial > 0 {
            shapes.push((prof.adversarial, adversarial_shape(s, &prof)));
        }
        if prof.oscillate > 0 {
            shapes.push((prof.oscillate, oscillation_shape(s, &prof)));
        }
        if prof.huge > 0 {
            shapes.push((prof.huge, huge_shape(s, &prof)));
        }
        if prof.head_stall > 0 && s.is_ordered() {
            shapes.push((prof.head_stall, head_stall_shape(s, &prof)));
        }
        per_subject.push((wt, Union::new_weighted(shapes).boxed()));
    }
    Union::new_weighted(per_subject).boxed()
}
