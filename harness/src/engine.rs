//! E1: the history engine. proptest `TestRunner`s on N threads, each a pure function of
//! (tree, VERIF_SEED, tier); first failure is shrunk and written as a replay file.

use crate::gen::case_strategy;
use crate::interp::*;
use crate::ops::Case;
use crate::subject::Subj;
use crate::world::{lb, Violation};
use proptest::test_runner::{Config, RngAlgorithm, RngSeed, TestCaseError, TestError, TestRunner};
use serde_json::{json, Value};
use std::collections::{BTreeMap, HashSet};
use std::panic::{catch_unwind, AssertUnwindSafe};
use std::sync::atomic::{AtomicU64, Ordering};
use std::sync::{Arc, Mutex};

pub fn verif_dir() -> String {
    std::env::var("VERIF_DIR").unwrap_or_else(|_| "/verif".to_string())
}

#[derive(Clone, Debug)]
pub struct Known {
    pub status: String,
    pub property: String,
    pub signature: String,
    pub what: String,
}

pub fn load_known() -> Vec<Known> {
    let path = format!("{}/known_findings.json", verif_dir());
    let Ok(s) = std::fs::read_to_string(&path) else { return Vec::new() };
    let Ok(v) = serde_json::from_str::<Value>(&s) else {
        eprintln!("warning: {path} is not valid JSON");
        return Vec::new();
    };
    let mut out = Vec::new();
    if let Some(a) = v.get("findings").and_then(|x| x.as_array()) {
        for e in a {
            out.push(Known {
                status: e["status"].as_str().unwrap_or("").to_string(),
                property: e["property"].as_str().unwrap_or("").to_string(),
                signature: e["signature"].as_str().unwrap_or("").to_string(),
                what: e["what"].as_str().unwrap_or("").to_string(),
            });
        }
    }
    out
}

pub fn rule_text(prop: u32) -> &'static str {
    match prop {
        1 => "cases = generated push/poll/wake/complete histories over all 13 subjects with 3 task wakers; non-trivial = the history invokes the own waker of a held child (a) between two polls after a Pending or (b) during a collection poll; distinct = distinct case digest",
        2 => "histories over the four collections; non-trivial = a push accepted after a completion (slot reuse) AND completion order != acceptance order AND (bounded subject OR >=2 groups existed OR a group was discarded); distinct = distinct case digest",
        3 => "histories over collections/merges with waker clone/wake/drop ops and every death order; non-trivial = a waker of a finished child is invoked, or a waker is used after the subject was dropped; distinct = distinct case digest",
        4 => "ordered collections (both counters seeded anywhere incl. next to 0 / 2^63 / MAX), ordered adapters, joins; non-trivial = collections: push_front and push_back and an output parked out of turn and counters seeded within 512 of 0/2^63/MAX; adapters: an output parked out of turn; joins: >=2 inputs completing out of index order; distinct = distinct case digest",
        5 => "histories over all subjects with retained wakers of finished children; non-trivial = a waker of a finished child is invoked and a later poll of the subject happens; distinct = distinct case digest",
        6 => "histories over all subjects, subject dropped after any prefix; non-trivial = the subject is dropped while it still holds a running child or a produced but undelivered output; distinct = distinct case digest",
        7 => "join_all/try_join_all with 0..140 inputs, any completion order, any failing subset, 0..3 re-polls after the first Ready; non-trivial = >=2 inputs, completion order != index order, and for try_join_all an Err while inputs are still pending followed by a further poll; distinct = distinct case digest",
        8 => "histories with !Unpin children over collections/merges/joins incl. subject moves and group creation/removal; non-trivial = some child is polled both before and after a move of the subject or a change of the group layout; distinct = distinct case digest",
        9 => "adapter cases (scripted upstream with gaps/errors/end); non-trivial = the limit n is reached AND upstream is pulled again after a completion; distinct = distinct case digest",
        10 => "adapter cases incl. for_each_concurrent(0); non-trivial = upstream answers Pending at least once AND the adapter is polled after upstream ended with futures in flight; distinct = distinct case digest",
        11 => "merge cases with 0..150 scripted sources; non-trivial = >=2 sources deliver >=2 items each and some source answers Pending in between; distinct = distinct case digest",
        12 => "histories with redundant/stale wakes; non-trivial = some child is woken >=2 times between two of its polls AND some collection poll leaves a held child un-polled; distinct = distinct case digest",
        13 => "adversarial populations (forever self-waking futures, endless sources, push-one/pop-one refill) with a victim woken once; non-trivial = a woken child had to wait through a poll that polled another child, or more than 61 children are held; distinct = distinct case digest",
        14 => "histories with Settle probes (every child frozen pending+silent, poll until clean Pending); non-trivial = a Settle probe ran with >=2 held children; distinct = distinct case digest",
        15 => "histories over the collections and MergeBounded with capacities 0..300 and refused pushes; non-trivial = at least one refused push AND an accepted push after a completion; distinct = distinct case digest",
        16 => "buffered_ordered / try_buffered_ordered with upstream longer than n (also endless), head-of-line stall shapes; non-trivial = an output is parked behind a pending head while upstream has items left; distinct = distinct case digest",
        17 => "all streams, size_hint read after every operation and compared with what is still to come (model) and with what actually came (measured); non-trivial = an observation strictly between the first poll and the last item with >=1 item still to come; distinct = distinct case digest",
        18 => "fill/drain/refill oscillations with waker clone/drop storms under a counting allocator; non-trivial = children processed >= 20 x peak AND >= 3 fill/drain cycles; distinct = distinct case digest",
        _ => "",
    }
}

pub fn nontrivial(prop: u32, case: &Case, r: &CaseResult) -> bool {
    let l = r.labels;
    let has = |b: u64| l & b != 0;
    let s = case.subj;
    match prop {
        1 => has(lb::WAKE_BETWEEN) || has(lb::WAKE_DURING),
        2 => has(lb::SLOT_REUSE) && has(lb::OOO) && (!s.is_unbounded() || has(lb::MULTI_GROUP) || has(lb::GROUP_DISCARD)),
        3 => has(lb::STALE_WAKE) || has(lb::WAKE_AFTER_DROP),
        4 => {
            if s.is_collection() {
                has(lb::PUSH_FRONT) && has(lb::PUSH_BACK) && has(lb::PARKED) && has(lb::WRAP)
            } else if s.is_adapter() {
                has(lb::PARKED)
            } else {
                case.cfg.initial.len() >= 2 && has(lb::OOO)
            }
        }
        5 => has(lb::LATER_POLL_AFTER_STALE),
        6 => has(lb::EARLY_DROP_RUNNING) || has(lb::EARLY_DROP_PARKED),
        7 => {
            case.cfg.initial.len() >= 2
                && has(lb::OOO)
                && (s == Subj::JA || (has(lb::ERR_NOT_LAST) && has(lb::JOIN_REPOLL)))
        }
        8 => has(lb::MOVED),
        9 => has(lb::LIMIT_REACHED) && has(lb::REFILL),
        10 => has(lb::UP_GAP) && has(lb::POLL_AFTER_UP_END),
        11 => has(lb::TWO_SRC),
        12 => has(lb::REDUNDANT_WAKE) && has(lb::UNPOLLED_SIBLING),
        13 => has(lb::VICTIM_OTHER_GROUP) || has(lb::POP_GT_BUDGET),
        14 => has(lb::SETTLED),
        15 => has(lb::REFUSED) && has(lb::ACCEPT_AFTER_DONE),
        16 => has(lb::HEAD_STALL),
        17 => has(lb::OBS_MID),
        18 => has(lb::MANY_PROCESSED) && has(lb::CYCLES3),
        _ => false,
    }
}

const LABEL_NAMES: &[(u64, &str)] = &[
    (lb::WAKE_BETWEEN, "wake-between-polls"),
    (lb::WAKE_DURING, "wake-during-poll"),
    (lb::BUDGET, "call-with->=61-child-polls"),
    (lb::MULTI_GROUP, "multi-group"),
    (lb::WAKER_CHANGED, "task-waker-changed"),
    (lb::SLOT_REUSE, "slot-reuse"),
    (lb::GROUP_DISCARD, "group-discarded"),
    (lb::OOO, "out-of-order-completion"),
    (lb::STALE_WAKE, "stale-wake"),
    (lb::STALE_REUSED, "stale-wake-on-reused-slot"),
    (lb::WAKE_AFTER_DROP, "waker-used-after-subject-drop"),
    (lb::FREED_BY_WAKER, "block-freed-by-waker"),
    (lb::CAP0, "cap=0"),
    (lb::CAP1, "cap=1"),
    (lb::PARKED, "output-parked"),
    (lb::PUSH_FRONT, "push_front"),
    (lb::PUSH_BACK, "push_back"),
    (lb::WRAP, "counters-near-boundary"),
    (lb::LATER_POLL_AFTER_STALE, "poll-after-stale-wake"),
    (lb::SELF_WAKE_ON_COMPLETE, "self-wake-on-complete"),
    (lb::SOURCE_ENDED, "merge-source-ended"),
    (lb::EARLY_DROP_RUNNING, "dropped-with-running-child"),
    (lb::EARLY_DROP_PARKED, "dropped-with-undelivered-output"),
    (lb::AFTER_ERR, "after-err"),
    (lb::MOVED, "polled-before-and-after-move"),
    (lb::LIMIT_REACHED, "limit-reached"),
    (lb::REFILL, "refill-after-completion"),
    (lb::UP_GAP, "upstream-pending-gap"),
    (lb::POLL_AFTER_UP_END, "polled-after-upstream-end-with-inflight"),
    (lb::REFUSED, "refused-push"),
    (lb::REDUNDANT_WAKE, "redundant-wake"),
    (lb::UNPOLLED_SIBLING, "unpolled-sibling"),
    (lb::POP_GT_BUDGET, "population>61"),
    (lb::VICTIM_OTHER_GROUP, "woken-child-waited"),
    (lb::SETTLED, "settle>=2-held"),
    (lb::OBS_MID, "hint-observed-mid-run"),
    (lb::CYCLES3, ">=3-cycles"),
    (lb::JOIN_REPOLL, "join-repolled"),
    (lb::ERR_NOT_LAST, "err-with-pending-inputs"),
    (lb::HEAD_STALL, "head-of-line-stall"),
    (lb::TWO_SRC, "two-sources-interleaved"),
    (lb::PUSH_RUNNING, "push-into-running-merge"),
    (lb::DRAIN_EMPTY, "drain-to-empty"),
    (lb::IN_DROP_WAKE, "waker-traffic-in-child-drop"),
    (lb::UP_ERR, "upstream-error"),
    (lb::REBASE_MIXED, "rebase-mixed"),
    (lb::ACCEPT_AFTER_DONE, "accept-after-completion"),
    (lb::MANY_PROCESSED, "processed>=20xpeak"),
    (lb::UP_END_INFLIGHT, "upstream-ended-with-inflight"),
];

#[derive(Default)]
pub struct Agg {
    pub evaluations: u64,
    pub nontrivial: HashSet<u64>,
    pub labels: BTreeMap<&'static str, u64>,
    pub subjects: BTreeMap<&'static str, u64>,
    pub nontrivial_by_subject: BTreeMap<&'static str, u64>,
    pub samples: Vec<Value>,
    pub known_hits: BTreeMap<String, u64>,
    pub other_hits: BTreeMap<String, u64>,
    pub aborted: u64,
    pub harness_errors: Vec<String>,
    pub polls: u64,
    pub child_polls: u64,
    pub max_groups: usize,
    pub max_peak: u64,
    pub hints_checked: u64,
}

#[derive(Clone)]
pub struct Failure {
    pub sig: String,
    pub msg: String,
    pub case: Case,
    pub shard: usize,
}

pub struct Outcome {
    pub agg: Agg,
    pub failures: Vec<Failure>,
    pub wall_s: f64,
}

fn splitmix(mut x: u64) -> u64 {
    x = x.wrapping_add(0x9E3779B97F4A7C15);
    let mut z = x;
    z = (z ^ (z >> 30)).wrapping_mul(0xBF58476D1CE4E5B9);
    z = (z ^ (z >> 27)).wrapping_mul(0x94D049BB133111EB);
    z ^ (z >> 31)
}

pub fn sample_json(case: &Case, r: &CaseResult) -> Value {
    let mut ops: Vec<String> = case.ops.iter().take(14).map(|o| format!("{o:?}")).collect();
    if case.ops.len() > 14 {
        ops.push(format!("... {} more ops", case.ops.len() - 14));
    }
    for o in ops.iter_mut() {
        if o.len() > 160 {
            o.truncate(160);
            o.push_str("…");
        }
    }
    json!({
        "subject": case.subj.name(),
        "cap": case.cfg.cap, "ctor": case.cfg.ctor, "initial_children": case.cfg.initial.len(),
        "start_index": format!("{:#x}", case.cfg.start_index),
        "upstream_steps": case.cfg.upstream.len(),
        "ops": ops,
        "observed": {
            "polls": r.stats.polls, "child_polls": r.stats.child_polls, "pushes": r.stats.pushes,
            "yielded": r.stats.yielded, "peak_held": r.stats.peak, "groups_max": r.stats.groups_max,
            "waker_invocations": r.stats.invocations, "allocs_in_crate": r.stats.allocs,
            "drained": r.stats.drained, "dropped_early": r.stats.dropped_early,
            "labels": LABEL_NAMES.iter().filter(|(b, _)| r.labels & b != 0).map(|(_, n)| *n).collect::<Vec<_>>(),
        }
    })
}

/// classify the violations of one case for the property under check
/// returns Some((sig,msg)) if a violation of `prop` not covered by a known finding exists
fn classify(prop: u32, r: &CaseResult, known: &[Known], agg: Option<&mut Agg>) -> Option<(String, String)> {
    let bit = 1u32 << prop;
    let mut fatal = None;
    let mut agg = agg;
    for v in &r.violations {
        if v.props & bit != 0 {
            let k = known
                .iter()
                .any(|k| k.status == "known" && k.signature == v.sig && k.property == format!("C{prop:02}"));
            if k {
                if let Some(a) = agg.as_deref_mut() {
                    *a.known_hits.entry(v.sig.clone()).or_insert(0) += 1;
                }
            } else if fatal.is_none() {
                fatal = Some((v.sig.clone(), v.msg.clone()));
            }
        } else if let Some(a) = agg.as_deref_mut() {
            *a.other_hits.entry(v.sig.clone()).or_insert(0) += 1;
        }
    }
    fatal
}

pub fn run_one_checked(case: &Case, trace: bool, alloc_on: bool, focus: u32) -> Result<CaseResult, String> {
    match catch_unwind(AssertUnwindSafe(|| run_case(case, trace, alloc_on, focus))) {
        Ok(r) => Ok(r),
        Err(e) => {
            let msg = if let Some(s) = e.downcast_ref::<&str>() {
                s.to_string()
            } else if let Some(s) = e.downcast_ref::<String>() {
                s.clone()
            } else {
                "<panic>".into()
            };
            crate::alloc::reset_depths();
            crate::alloc::set_poison(false);
            Err(msg)
        }
    }
}

pub static PROGRESS: AtomicU64 = AtomicU64::new(0);

/// failures reported so far (shrunk ones, and provisional unshrunk ones pushed at the moment of the first
/// failure of a shard): the watchdog reads this when a shard hangs inside the crate
pub static SO_FAR: Mutex<Vec<Failure>> = Mutex::new(Vec::new());

pub fn run_e1(prop: u32, seed: u64, total_cases: u64, threads: usize, alloc_on: bool, max_shrink: u32) -> Outcome {
    let t0 = std::time::Instant::now();
    let known = Arc::new(load_known());
    let shared = Arc::new(Mutex::new((Agg::default(), Vec::<Failure>::new())));
    let per = (total_cases + threads as u64 - 1) / threads as u64;
    let mut handles = Vec::new();
    for shard in 0..threads {
        let shared = shared.clone();
        let known = known.clone();
        let h = std::thread::Builder::new()
            .name(format!("e1-{shard}"))
            .stack_size(64 << 20)
            .spawn(move || {
                install_hooks();
                let sseed = splitmix(seed ^ splitmix(prop as u64 * 1000 + shard as u64));
                let cfg = Config {
                    cases: per as u32,
                    failure_persistence: None,
                    rng_seed: RngSeed::Fixed(sseed),
                    rng_algorithm: RngAlgorithm::ChaCha,
                    max_shrink_iters: max_shrink,
                    max_global_rejects: 1,
                    ..Config::default()
                };
                let mut runner = TestRunner::new(cfg);
                let strat = case_strategy(prop);
                let agg_cell = std::cell::RefCell::new(Agg::default());
                let failed_cell: std::cell::RefCell<Option<String>> = std::cell::RefCell::new(None);
                let res = runner.run(&strat, |case| {
                    let mut agg = agg_cell.borrow_mut();
                    let agg = &mut *agg;
                    let mut failed = failed_cell.borrow_mut();
                    PROGRESS.fetch_add(1, Ordering::Relaxed);
                    let r = match run_one_checked(&case, false, alloc_on, 1 << prop) {
                        Ok(r) => r,
                        Err(m) => {
                            if failed.is_none() && agg.harness_errors.len() < 5 {
                                agg.harness_errors.push(format!("{m} :: {}", serde_json::to_string(&case).unwrap_or_default()));
                            }
                            return Ok(());
                        }
                    };
                    if let Some(first_sig) = &*failed {
                        // shrinking: only the same signature counts as "still failing"
                        return match classify(prop, &r, &known, None) {
                            Some((sig, msg)) if &sig == first_sig => Err(TestCaseError::fail(format!("{sig}\u{1}{msg}"))),
                            _ => Ok(()),
                        };
                    }
                    agg.evaluations += 1;
                    agg.polls += r.stats.polls;
                    agg.child_polls += r.stats.child_polls;
                    agg.max_groups = agg.max_groups.max(r.stats.groups_max);
                    agg.max_peak = agg.max_peak.max(r.stats.peak);
                    agg.hints_checked += r.stats.hints_checked as u64;
                    if r.aborted {
                        agg.aborted += 1;
                    }
                    *agg.subjects.entry(case.subj.name()).or_insert(0) += 1;
                    for (b, n) in LABEL_NAMES {
                        if r.labels & b != 0 {
                            *agg.labels.entry(n).or_insert(0) += 1;
                        }
                    }
                    let nt = nontrivial(prop, &case, &r);
                    if nt {
                        let d = case.digest();
                        if agg.nontrivial.insert(d) {
                            *agg.nontrivial_by_subject.entry(case.subj.name()).or_insert(0) += 1;
                            if agg.samples.len() < 2 && case.ops.len() <= 30 {
                                agg.samples.push(sample_json(&case, &r));
                            }
                        }
                    }
                    match classify(prop, &r, &known, Some(agg)) {
                        Some((sig, msg)) => {
                            *failed = Some(sig.clone());
                            if let Ok(mut g) = SO_FAR.lock() {
                                g.push(Failure {
                                    sig: sig.clone(),
                                    msg: format!("(not shrunk) {msg}"),
                                    case: case.clone(),
                                    shard,
                                });
                            }
                            Err(TestCaseError::fail(format!("{sig}\u{1}{msg}")))
                        }
                        None => Ok(()),
                    }
                });
                let agg = agg_cell.into_inner();
                let mut g = shared.lock().unwrap();
                merge(&mut g.0, agg);
                if let Err(TestError::Fail(reason, case)) = res {
                    let reason = reason.message().to_string();
                    let mut it = reason.splitn(2, '\u{1}');
                    let sig = it.next().unwrap_or("").to_string();
                    let msg = it.next().unwrap_or("").to_string();
                    let f = Failure { sig, msg, case, shard };
                    if let Ok(mut sf) = SO_FAR.lock() {
                        sf.retain(|x| !(x.shard == shard));
                        sf.push(f.clone());
                    }
                    g.1.push(f);
                } else if let Err(TestError::Abort(r)) = res {
                    g.0.harness_errors.push(format!("proptest aborted: {}", r.message()));
                }
            })
            .unwrap();
        handles.push(h);
    }
    for h in handles {
        let _ = h.join();
    }
    let (agg, failures) = match Arc::try_unwrap(shared) {
        Ok(m) => m.into_inner().unwrap(),
        Err(_) => panic!("shard still running"),
    };
    Outcome {
        agg,
        failures,
        wall_s: t0.elapsed().as_secs_f64(),
    }
}

fn merge(a: &mut Agg, b: Agg) {
    a.evaluations += b.evaluations;
    a.nontrivial.extend(b.nontrivial);
    for (k, v) in b.labels {
        *a.labels.entry(k).or_insert(0) += v;
    }
    for (k, v) in b.subjects {
        *a.subjects.entry(k).or_insert(0) += v;
    }
    for (k, v) in b.nontrivial_by_subject {
        *a.nontrivial_by_subject.entry(k).or_insert(0) += v;
    }
    for s in b.samples {
        if a.samples.len() < 6 {
            a.samples.push(s);
        }
    }
    for (k, v) in b.known_hits {
        *a.known_hits.entry(k).or_insert(0) += v;
    }
    for (k, v) in b.other_hits {
        *a.other_hits.entry(k).or_insert(0) += v;
    }
    a.aborted += b.aborted;
    a.harness_errors.extend(b.harness_errors);
    a.polls += b.polls;
    a.child_polls += b.child_polls;
    a.max_groups = a.max_groups.max(b.max_groups);
    a.max_peak = a.max_peak.max(b.max_peak);
    a.hints_checked += b.hints_checked;
}

pub fn violations_of(prop: u32, r: &CaseResult) -> Vec<&Violation> {
    r.violations.iter().filter(|v| v.props & (1 << prop) != 0).collect()
}
