//! The interpreter: applies a case to the real subject and to the reference model, evaluating the
//! oracles after every step, then runs the fixed epilogue (honest environment + final ledgers).

use crate::alloc::{self, sut};
use crate::ops::*;
use crate::script::*;
use crate::subject::*;
use crate::world::*;
use std::collections::VecDeque;
use std::panic::{catch_unwind, AssertUnwindSafe};
use std::task::{Context, Waker};

pub const ALL_PROPS: u32 = 0x7FFFE; // bits 1..=18

#[derive(Clone, Debug, Default)]
pub struct CaseStats {
    pub polls: u64,
    pub child_polls: u64,
    pub pushes: u64,
    pub yielded: u64,
    pub peak: u64,
    pub allocs: u64,
    pub groups_max: usize,
    pub cycles: u32,
    pub drained: bool,
    pub dropped_early: bool,
    pub refused: u32,
    pub invocations: u64,
    pub pulled: u64,
    pub hints_checked: u32,
}

pub struct CaseResult {
    pub violations: Vec<Violation>,
    pub labels: u64,
    pub stats: CaseStats,
    pub log: Vec<String>,
    /// the case could not be driven to its end (crate panicked / hard cap)
    pub aborted: bool,
}

/// element of a join's output Vec: with or without drop glue
enum JTok {
    T(Token),
    P(PTok),
}

struct HintRec {
    lower: usize,
    upper: Option<usize>,
    delivered_then: u64,
    pushes_then: u64,
}

struct Run<'a> {
    case: &'a Case,
    subj: Option<Box<dyn Subject>>,
    wakers: Vec<Waker>,
    /// ordered subjects: ids in the order they must come out
    queue: VecDeque<Cid>,
    /// children accepted by explicit pushes / collect (collections, merges, joins)
    accepted: u64,
    yielded: u64,
    bounded_cap: Option<usize>,
    resolved: bool,
    abort: bool,
    stats: CaseStats,
    hints: Vec<HintRec>,
    last_groups: usize,
    going_up: bool,
    last_pop: u64,
    zero_alloc: bool,
    log_bound: bool,
    alloc_on: bool,
    first_poll_done: bool,
    merge_started: bool,
}

impl Drop for Run<'_> {
    fn drop(&mut self) {
        if std::thread::panicking() {
            // unwinding after a controlled stop: the crate's state is unknown, leak it
            if let Some(sj) = self.subj.take() {
                std::mem::forget(sj);
            }
            for wk in self.wakers.drain(..) {
                std::mem::forget(wk);
            }
        }
    }
}

fn ceil_log2(x: u64) -> u64 {
    if x <= 1 {
        0
    } else {
        64 - (x - 1).leading_zeros() as u64
    }
}

fn panic_msg(e: &Box<dyn std::any::Any + Send>) -> String {
    if let Some(s) = e.downcast_ref::<&str>() {
        s.to_string()
    } else if let Some(s) = e.downcast_ref::<String>() {
        s.clone()
    } else {
        "<non-string panic>".into()
    }
}

impl<'a> Run<'a> {
    fn class_props(&self) -> u32 {
        let s = self.case.subj;
        if s.is_collection() {
            if s.is_ordered() {
                p(2) | p(4)
            } else {
                p(2)
            }
        } else if s.is_merge() {
            p(11)
        } else if s.is_adapter() {
            p(10)
        } else {
            p(7)
        }
    }

    fn held(&self) -> u64 {
        w(|x| x.held_count() as u64)
    }

    /// number of items still owed by the model: accepted - yielded (collections / merges count sources)
    fn owed(&self) -> u64 {
        if self.case.subj.is_adapter() {
            w(|x| {
                if self.case.subj == Subj::FE {
                    x.pulled - x.completed
                } else {
                    x.pulled - x.delivered
                }
            })
        } else {
            self.accepted.saturating_sub(self.yielded)
        }
    }

    // ---------------------------------------------------------------------------------------
    // polls

    fn poll(&mut self, k: usize) -> Option<PollOut> {
        if self.subj.is_none() || self.abort {
            return None;
        }
        // waker index 3..5 = a freshly made waker object of task (k - 3): same task, but `will_wake` is false
        // against the waker registered before (executors that build a new waker for every poll)
        let fresh = (k / NW) % 2 == 1;
        let k = k % NW;
        w(|x| {
            x.poll_seq += 1;
            x.in_poll = true;
            x.cur_waker = k;
            x.task_wakes_at_start = x.task_wakes;
            x.child_polls_in_call = 0;
            x.events_in_call = 0;
            x.done_this_call.clear();
            x.up_polled_in_call = false;
            x.up_last_pending_in_call = false;
            let pl = std::mem::take(&mut x.polled_list);
            for c in pl {
                x.children[c as usize].polled_in_call = false;
            }
            if x.last_waker != usize::MAX && x.last_waker != k {
                x.labels |= lb::WAKER_CHANGED;
            }
            let seq = x.poll_seq;
            x.ev(|| format!("poll #{seq} (task waker {k})"));
            if x.up_ended && x.inflight > 0 {
                x.labels |= lb::POLL_AFTER_UP_END;
            }
            if x.labels & lb::STALE_WAKE != 0 {
                x.labels |= lb::LATER_POLL_AFTER_STALE;
            }
        });
        self.stats.polls += 1;
        let waker = if fresh {
            Waker::from(TaskW::new(k))
        } else {
            self.wakers[k].clone()
        };
        let mut cx = Context::from_waker(&waker);
        let subj = self.subj.as_mut().unwrap();
        let r = catch_unwind(AssertUnwindSafe(|| sut(|| subj.poll(&mut cx))));
        alloc::reset_depths();
        drop(waker);
        let pending = matches!(r, Ok(PollOut::Pending));
        w(|x| {
            x.in_poll = false;
            x.last_waker = k;
            x.last_poll_pending = pending;
            x.ev(|| {
                format!(
                    "  -> {}",
                    match &r {
                        Ok(PollOut::Pending) => "Pending",
                        Ok(PollOut::Done) => "Ready(None)/done",
                        Ok(PollOut::Item(_)) => "Ready(item)",
                        Err(_) => "PANIC",
                    }
                )
            });
        });
        self.first_poll_done = true;
        match r {
            Err(e) => {
                let msg = panic_msg(&e);
                if msg.contains("VERIF_CHILD_PANIC") {
                    // a child panicked and the caller caught the unwind: the subject stays in use
                    w(|x| {
                        x.last_poll_pending = false;
                        x.done_this_call.clear();
                    });
                    return Some(PollOut::Pending);
                }
                if msg.contains("VERIF_STOP") {
                    // a probe stopped the crate; the violation is already recorded
                } else if msg.contains("VERIF_HARD_CAP") {
                    w(|x| {
                        x.violate(
                            p(13),
                            "C13/unbounded-poll-loop",
                            format!("one call polled children more than {HARD_CAP} times without returning"),
                        )
                    });
                } else if self.resolved && self.case.subj.is_join() {
                    // I5: a join polled after completion may panic
                    w(|x| x.ev(|| format!("  (re-poll after completion panicked: {msg})")));
                } else {
                    w(|x| {
                        x.violate(
                            ALL_PROPS,
                            format!("Cxx/panic-in-poll/{}", short(&msg)),
                            format!("the subject panicked inside poll: {msg}"),
                        )
                    });
                }
                self.abandon();
                None
            }
            Ok(out) => {
                let out = self.handle_poll_result(out, k);
                self.after_poll(pending, k);
                Some(out)
            }
        }
    }

    /// crate state is unknown after a panic: leak the subject, stop interpreting
    fn abandon(&mut self) {
        if let Some(s) = self.subj.take() {
            std::mem::forget(s);
        }
        w(|x| x.subject_alive = false);
        self.abort = true;
    }

    fn take_tok(&mut self, t: Token, what: &str) -> Option<(TokKind, Cid, u32)> {
        match t.valid() {
            None => {
                let raw = t.raw();
                std::mem::forget(t);
                let pr = p(7) | self.class_props();
                w(|x| {
                    x.violate(
                        pr,
                        "C07/garbage-value-handed-out",
                        format!("{what}: a value that no child produced was handed out: raw={raw:x?}"),
                    )
                });
                None
            }
            Some(tid) => {
                let pr = p(7) | self.class_props();
                let r = w(|x| {
                    let tk = &mut x.toks[tid as usize];
                    let dup = tk.handed_out || tk.dropped > 0;
                    tk.handed_out = true;
                    let r = (tk.kind, tk.child, tk.seq);
                    if dup {
                        x.violate(
                            pr,
                            "C02/value-handed-out-twice",
                            format!("{what}: output #{tid} of child {} handed out twice (or after it was dropped)", r.1),
                        );
                    }
                    r
                });
                drop(t);
                Some(r)
            }
        }
    }

    /// same for an output value without drop glue
    fn take_ptok(&mut self, t: PTok, what: &str) -> Option<(TokKind, Cid, u32)> {
        let pr = p(7) | self.class_props();
        match t.valid() {
            None => {
                let raw = t.raw();
                w(|x| {
                    x.violate(
                        pr,
                        "C07/garbage-value-handed-out",
                        format!("{what}: a value that no child produced was handed out: raw={raw:x?}"),
                    )
                });
                None
            }
            Some(tid) => Some(w(|x| {
                let tk = &mut x.toks[tid as usize];
                let dup = tk.handed_out;
                tk.handed_out = true;
                let r = (tk.kind, tk.child, tk.seq);
                if dup {
                    x.violate(
                        pr,
                        "C02/value-handed-out-twice",
                        format!("{what}: output #{tid} of child {} handed out twice", r.1),
                    );
                }
                r
            })),
        }
    }

    /// an output of child `c` came out of a collection / adapter
    fn note_yield(&mut self, c: Cid, what: &str) {
        let ordered = self.case.subj.is_ordered();
        let pr = self.class_props();
        let front = if self.case.subj.is_adapter() {
            // upstream order = creation order of the futures = id order
            w(|x| {
                let mut k = x.scan_from;
                while k < x.children.len() {
                    let ch = &x.children[k];
                    if ch.role == Role::Fut && ch.accepted && !ch.yielded {
                        break;
                    }
                    k += 1;
                }
                x.scan_from = k;
                if k < x.children.len() {
                    Some(k as Cid)
                } else {
                    None
                }
            })
        } else {
            self.queue.front().copied()
        };
        w(|x| {
            let (acc, life, yl) = {
                let ch = &x.children[c as usize];
                (ch.accepted, ch.life, ch.yielded)
            };
            if !acc || life != Life::Done {
                x.violate(
                    pr | p(2),
                    "C02/invented-item",
                    format!("{what}: item of child {c} yielded but that child was not accepted / has not completed"),
                );
            }
            if yl {
                x.violate(pr | p(2), "C02/duplicate-item", format!("{what}: child {c} yielded twice"));
            }
            if !x.children[c as usize].yielded {
                x.parked -= 1;
            }
            x.children[c as usize].yielded = true;
            x.delivered += 1;
        });
        if ordered {
            if front != Some(c) {
                let refused_before = self.bounded_cap.is_some() && w(|x| x.labels & lb::REFUSED != 0);
                w(|x| {
                    x.violate(
                        if refused_before { p(4) | p(15) } else { p(4) },
                        "C04/out-of-order",
                        format!("{what}: expected the output of child {front:?} next, got child {c}"),
                    )
                });
                self.queue.retain(|&q| q != c);
            } else {
                self.queue.pop_front();
            }
        }
        self.yielded += 1;
        self.stats.yielded += 1;
    }

    fn handle_poll_result(&mut self, out: PollOut, _k: usize) -> PollOut {
        let s = self.case.subj;
        match out {
            PollOut::Item(Out::Tok(t)) => {
                if let Some((kind, c, seq)) = self.take_tok(t, "poll_next") {
                    if s.is_merge() {
                        self.merge_item(kind, c, seq);
                    } else if kind == TokKind::Out {
                        self.note_yield(c, "poll_next");
                    } else {
                        w(|x| {
                            x.violate(
                                ALL_PROPS,
                                "Cxx/wrong-kind",
                                format!("poll_next yielded a value of kind {kind:?}"),
                            )
                        });
                    }
                }
                PollOut::Item(Out::Vec(Vec::new()))
            }
            PollOut::Item(Out::PTok(t)) => {
                if let Some((_k, c, _)) = self.take_ptok(t, "poll_next") {
                    self.note_yield(c, "poll_next");
                }
                PollOut::Item(Out::Vec(Vec::new()))
            }
            PollOut::Item(Out::Res(r)) => {
                match r {
                    Ok(t) => {
                        if let Some((_k, c, _)) = self.take_tok(t, "poll_next Ok") {
                            self.note_yield(c, "poll_next Ok");
                        }
                    }
                    Err(e) => {
                        if let Some((kind, c, _)) = self.take_tok(e, "poll_next Err") {
                            match kind {
                                TokKind::Err => self.note_yield(c, "poll_next Err"),
                                TokKind::UpErr => w(|x| x.up_errs_out += 1),
                                _ => w(|x| {
                                    x.violate(ALL_PROPS, "Cxx/wrong-kind", "Err carried a non-error value")
                                }),
                            }
                        }
                    }
                }
                PollOut::Item(Out::Vec(Vec::new()))
            }
            PollOut::Item(Out::Vec(v)) => {
                self.join_ready(Ok(v.into_iter().map(JTok::T).collect()));
                PollOut::Item(Out::Vec(Vec::new()))
            }
            PollOut::Item(Out::ResVec(r)) => {
                self.join_ready(r.map(|v| v.into_iter().map(JTok::T).collect()));
                PollOut::Item(Out::Vec(Vec::new()))
            }
            PollOut::Item(Out::PVec(v)) => {
                self.join_ready(Ok(v.into_iter().map(JTok::P).collect()));
                PollOut::Item(Out::Vec(Vec::new()))
            }
            PollOut::Item(Out::PResVec(r)) => {
                self.join_ready(r.map(|v| v.into_iter().map(JTok::P).collect()));
                PollOut::Item(Out::Vec(Vec::new()))
            }
            PollOut::Done => {
                self.on_done();
                PollOut::Done
            }
            PollOut::Pending => {
                self.on_pending();
                PollOut::Pending
            }
        }
    }

    fn merge_item(&mut self, kind: TokKind, src: Cid, seq: u32) {
        self.merge_started = true;
        w(|x| {
            x.rearms += 1;
            x.delivered += 1;
            if kind != TokKind::MItem {
                x.violate(p(11), "C11/foreign-item", format!("merge yielded a value of kind {kind:?}"));
                return;
            }
            let (acc, exp) = {
                let c = &x.children[src as usize];
                (c.accepted, c.next_seq_expected)
            };
            if !acc {
                x.violate(p(11), "C11/item-of-unknown-source", format!("item of source {src} which was never accepted"));
            }
            if seq != exp {
                x.violate(
                    p(11),
                    "C11/per-source-order",
                    format!("source {src}: expected its item #{exp} next, got #{seq}"),
                );
            }
            x.children[src as usize].next_seq_expected = seq.max(exp) + 1;
        });
        self.stats.yielded += 1;
    }

    fn join_ready(&mut self, r: Result<Vec<JTok>, ErrTok>) {
        let n = self.case.cfg.initial.len();
        let first = !self.resolved;
        if !first {
            w(|x| x.labels |= lb::JOIN_REPOLL);
        }
        match r {
            Ok(v) => {
                let len = v.len();
                let mut ids = Vec::new();
                for t in v {
                    let got = match t {
                        JTok::T(t) => self.take_tok(t, "join output"),
                        JTok::P(p_) => self.take_ptok(p_, "join output"),
                    };
                    match got {
                        Some((TokKind::Out | TokKind::OutPlain, c, _)) => ids.push(Some(c)),
                        Some((k, c, _)) => {
                            w(|x| {
                                x.violate(p(7), "C07/wrong-kind-in-vec", format!("Vec element of kind {k:?} (child {c})"))
                            });
                            ids.push(None)
                        }
                        None => ids.push(None),
                    }
                }
                if first {
                    let (all_done, any_fail) = w(|x| {
                        let mut all = true;
                        let mut fail = false;
                        for c in x.children.iter().filter(|c| c.role == Role::Fut) {
                            if c.life != Life::Done {
                                all = false;
                            }
                            if c.life == Life::Done && c.plan.fail {
                                fail = true;
                            }
                        }
                        (all, fail)
                    });
                    if !all_done {
                        w(|x| {
                            x.violate(
                                p(7),
                                "C07/resolved-early",
                                "resolved to a Vec before every input had resolved",
                            )
                        });
                    }
                    if any_fail && self.case.subj == Subj::TJA {
                        w(|x| x.violate(p(7), "C07/ok-despite-failure", "resolved to Ok although an input failed"));
                    }
                    if len != n {
                        w(|x| {
                            x.violate(
                                p(7) | p(4),
                                "C07/wrong-length",
                                format!("output Vec has {len} elements for {n} inputs"),
                            )
                        });
                    }
                    for (i, c) in ids.iter().enumerate() {
                        if let Some(c) = c {
                            if *c as usize != i {
                                w(|x| {
                                    x.violate(
                                        p(4) | p(7),
                                        "C04/join-index",
                                        format!("output of input {c} found at index {i}"),
                                    )
                                });
                            }
                        }
                    }
                    for c in ids.iter().flatten() {
                        w(|x| x.children[*c as usize].yielded = true);
                    }
                }
                // on a re-poll every element merely has to be genuine and undelivered: take_tok checked that
            }
            Err(e) => {
                if let Some((kind, c, _)) = self.take_tok(e, "join error") {
                    if first {
                        let fe = w(|x| x.first_err);
                        if kind != TokKind::Err || Some(c) != fe {
                            w(|x| {
                                x.violate(
                                    p(7),
                                    "C07/wrong-error",
                                    format!("resolved to the error of input {c}; the first input observed to fail was {fe:?}"),
                                )
                            });
                        }
                        let pending_left = w(|x| x.held_count());
                        if pending_left > 0 {
                            w(|x| x.labels |= lb::ERR_NOT_LAST);
                        }
                    }
                }
                w(|x| x.labels |= lb::AFTER_ERR);
            }
        }
        self.resolved = true;
    }

    fn on_done(&mut self) {
        let s = self.case.subj;
        if s.is_collection() {
            if self.owed() != 0 {
                let o = self.owed();
                // for the ordered collections this is also a failure to behave as a queue: the model's front was due
                let mut pr = if s.is_ordered() { p(2) | p(4) } else { p(2) };
                // C15: a refused / panicking push must not disturb the futures already held
                if self.bounded_cap.is_some() && w(|x| x.labels & lb::REFUSED != 0) {
                    pr |= p(15);
                }
                w(|x| {
                    x.violate(
                        pr,
                        "C02/none-while-holding",
                        format!("poll_next returned Ready(None) while {o} accepted futures have not been yielded"),
                    )
                });
            }
            if self.stats.peak > 0 {
                w(|x| x.labels |= lb::DRAIN_EMPTY);
            }
        } else if s.is_merge() {
            let h = self.held();
            if h != 0 {
                w(|x| {
                    x.violate(
                        p(11),
                        "C11/none-while-sources-live",
                        format!("merge returned Ready(None) while {h} sources have not ended"),
                    )
                });
            }
        } else if s.is_adapter() {
            w(|x| {
                let undel = x.pulled - if s == Subj::FE { x.completed } else { x.delivered };
                let errs_in: u64 = x
                    .children
                    .iter()
                    .filter(|c| c.role == Role::Upstream)
                    .map(|c| c.plan.script[..c.pos.min(c.plan.script.len())].iter().filter(|s| matches!(s, SStep::Err)).count() as u64)
                    .sum();
                if s.is_try() && errs_in != x.up_errs_out {
                    let eo = x.up_errs_out;
                    x.violate(
                        p(10),
                        "C10/upstream-error-lost",
                        format!("upstream produced {errs_in} errors, the adapter forwarded {eo}"),
                    );
                }
                if !x.up_ended || undel != 0 {
                    let ue = x.up_ended;
                    x.violate(
                        p(10),
                        "C10/ended-early",
                        format!("adapter finished although upstream ended = {ue} and {undel} pulled items are unfinished/undelivered"),
                    );
                }
            });
        }
    }

    fn on_pending(&mut self) {
        let s = self.case.subj;
        let k = w(|x| x.cur_waker);
        if s.is_collection() {
            if self.owed() == 0 {
                w(|x| {
                    x.violate(
                        p(2),
                        "C02/pending-while-empty",
                        "poll_next returned Pending although the collection holds no future and no output",
                    )
                });
            }
        } else if s.is_merge() {
            let h = self.held();
            if h == 0 {
                w(|x| {
                    x.violate(
                        p(11),
                        "C11/pending-while-empty",
                        "merge returned Pending although every source has ended",
                    )
                });
            } else {
                w(|x| {
                    if !x.task_woken_since_poll_start(k) {
                        let bad: Vec<Cid> = x
                            .children
                            .iter()
                            .enumerate()
                            .filter(|(_, c)| c.role == Role::Source && c.held() && !(c.last_pending && c.polls > 0))
                            .map(|(i, _)| i as Cid)
                            .collect();
                        if let Some(b) = bad.first() {
                            x.violate(
                                p(11),
                                "C11/pending-while-source-ready",
                                format!(
                                    "merge returned Pending without waking its task although source {b} (and {} more) did not answer Pending last",
                                    bad.len() - 1
                                ),
                            );
                        }
                    }
                });
            }
        } else if s.is_adapter() {
            w(|x| {
                let undel = x.pulled - if s == Subj::FE { x.completed } else { x.delivered };
                if x.up_ended && undel == 0 {
                    x.violate(
                        p(10),
                        "C10/pending-when-done",
                        "adapter returned Pending although upstream has ended and nothing is in flight or parked",
                    );
                }
                // C09 work conservation
                let lim = x.limit as u64;
                if lim > 0 {
                    let ok = undel >= lim || x.up_ended || (x.up_polled_in_call && x.up_last_pending_in_call);
                    if !ok {
                        let (pc, lp) = (x.up_polled_in_call, x.up_last_pending_in_call);
                        x.violate(
                            p(9),
                            "C09/not-work-conserving",
                            format!("Pending with only {undel} of {lim} pulled items unfinished/undelivered, upstream not ended, upstream polled in this call = {pc}, answered Pending = {lp}"),
                        );
                    }
                } else if s == Subj::FE {
                    // documented: limit 0 = no limit. A Pending needs a way to be woken.
                    let ok = x.up_ended || (x.up_polled_in_call && x.up_last_pending_in_call);
                    if !ok {
                        let sig = if x.up_polled_in_call {
                            "C10/FE/limit=0/not-work-conserving"
                        } else {
                            "C10/FE/limit=0/upstream-never-polled"
                        };
                        x.violate(
                            p(10),
                            sig,
                            "for_each_concurrent(0) returned Pending although upstream has not ended and did not answer Pending in this call",
                        );
                    }
                }
            });
        }
    }

    fn after_poll(&mut self, pending: bool, k: usize) {
        let s = self.case.subj;
        let ordered_adapter = matches!(s, Subj::BO | Subj::TBO);
        w(|x| {
            // C05: finished children are gone by the time the call returns
            let done = std::mem::take(&mut x.done_this_call);
            for id in done {
                if x.children[id as usize].dropped == 0 && x.children[id as usize].tracked() {
                    x.violate(
                        p(5),
                        "C05/not-dropped-promptly",
                        format!("child {id} finished during poll #{} but was not dropped when that call returned", x.poll_seq),
                    );
                }
            }
            // C13 B: bounded work per call
            let g = x.max_groups.max(1) as u64;
            let bound = WORK_UNIT * (2 * g + 1) * (x.events_in_call + 2);
            if x.child_polls_in_call > bound {
                let (cp, ev) = (x.child_polls_in_call, x.events_in_call);
                x.violate(
                    p(13),
                    "C13/too-much-work-per-poll",
                    format!("one call made {cp} child polls with only {ev} completions/pulls ({g} groups): bound {bound}"),
                );
            }
            // C13 A: bounded delay of a woken child
                        let n = x.max_cap.max(x.held_count()) as u64;
            let b = (g + 1) * (n + 2) + 4;
            if pending || x.polled_list.iter().any(|&c| x.children[c as usize].role != Role::Upstream) {
                x.eff_polls += 1;
            }
            let seq = x.eff_polls;
            let mut late = None;
            let any_polled = x.polled_list.iter().any(|&c| x.children[c as usize].role != Role::Upstream);
            let mut unpolled_held = false;
            let mut waited = false;
            let held = x.held.len();
            for &i in &x.held {
                let c = &x.children[i as usize];
                if !c.polled_in_call {
                    unpolled_held = true;
                    if c.dirty {
                        waited = true;
                    }
                }
                if c.dirty && seq - c.dirty_since > b && late.is_none() {
                    late = Some((i as usize, seq - c.dirty_since));
                }
            }
            if any_polled && unpolled_held {
                x.labels |= lb::UNPOLLED_SIBLING;
            }
            if any_polled && waited {
                x.labels |= lb::VICTIM_OTHER_GROUP;
            }
            if held > BUDGET as usize {
                x.labels |= lb::POP_GT_BUDGET;
            }
            if let (Some((i, d)), false) = (late, x.lenient) {
                x.violate(
                    p(13),
                    "C13/starved",
                    format!("child {i} was pushed/woken {d} child-polling collection polls ago and still has not been polled (bound {b}; {g} groups, capacity {n})"),
                );
            }
            // C16 after every poll of an ordered adapter
            if ordered_adapter && x.limit > 0 {
                let back = x.pulled - x.delivered;
                if back > x.limit as u64 {
                    let lim = x.limit;
                    x.violate(
                        p(16),
                        "C16/backlog-exceeds-n",
                        format!("after the poll {back} items are pulled but not yielded, n = {lim}"),
                    );
                }
                // head-of-line stall: something finished is parked while the oldest is still running
                let parked = x.parked > 0;
                if parked && !x.up_ended {
                    x.labels |= lb::HEAD_STALL;
                }
            }
            if pending {
                if !x.task_woken_since_poll_start(k) {
                    x.stale_invocations_since_clean = 0;
                }
            }
        });
        if s.is_ordered() {
            let parked = w(|x| x.parked > 0);
            if parked {
                w(|x| x.labels |= lb::PARKED);
            }
        }
        if pending {
            w(|x| x.check_wake_obligation("after-poll"));
        }
    }

    // ---------------------------------------------------------------------------------------
    // pushes

    fn running(&self) -> usize {
        w(|x| x.held_count())
    }

    fn push(&mut self, plan: &Plan, how: PushHow) {
        if self.subj.is_none() || self.abort {
            return;
        }
        let s = self.case.subj;
        if !(s.is_collection() || s.is_merge()) {
            return;
        }
        // map the flavour onto what the subject has
        let how = match (s, how) {
            (Subj::UB | Subj::MB, PushHow::Front) => PushHow::Back,
            (Subj::UB | Subj::MB, PushHow::TryFront) => PushHow::TryBack,
            (Subj::UU | Subj::MU, _) => PushHow::Back,
            (_, h) => h,
        };
        let role = if s.is_merge() { Role::Source } else { Role::Fut };
        let id = w(|x| {
            let id = x.new_child(role, plan);
            x.ev(|| format!("push {how:?} child {id} {}", plan_short(plan)));
            id
        });
        let expect_accept = match self.bounded_cap {
            Some(cap) => self.running() < cap,
            None => true,
        };
        let front = matches!(how, PushHow::Front | PushHow::TryFront);
        let had_completion = w(|x| !x.completion_order.is_empty());
        let subj = self.subj.as_mut().unwrap();
        let a0 = alloc::alloc_count();
        let r = catch_unwind(AssertUnwindSafe(|| sut(|| subj.push(id, how))));
        alloc::reset_depths();
        if r.is_err() {
            // the unwinding machinery allocates; a documented panic is not an operation C18 talks about
            alloc::set_alloc_count(a0);
        }
        match r {
            Ok(PushOut::Accepted) => {
                w(|x| {
                    x.accept(id);
                    if had_completion {
                        x.labels |= lb::SLOT_REUSE | lb::ACCEPT_AFTER_DONE;
                    }
                    x.labels |= if front { lb::PUSH_FRONT } else { lb::PUSH_BACK };
                    if !expect_accept {
                        x.violate(
                            p(15),
                            "C15/accepted-beyond-capacity",
                            format!("push of child {id} accepted although the bounded collection was full"),
                        );
                    }
                });
                if self.merge_started {
                    w(|x| x.labels |= lb::PUSH_RUNNING);
                }
                self.accepted += 1;
                self.stats.pushes += 1;
                if s.is_ordered() {
                    if front {
                        self.queue.push_front(id)
                    } else {
                        self.queue.push_back(id)
                    }
                }
            }
            Ok(PushOut::Refused(id2, val)) => {
                self.stats.refused += 1;
                w(|x| {
                    x.labels |= lb::REFUSED;
                    x.ev(|| format!("  -> refused, child {id2} handed back"));
                    let (dr, po) = (x.children[id as usize].dropped, x.children[id as usize].polls);
                    if id2 != id || dr != 0 || po != 0 {
                        x.violate(
                            p(15),
                            "C15/refusal-not-same-future",
                            format!("try_push refused child {id} but handed back child {id2} (dropped {dr}x, polled {po}x)"),
                        );
                    }
                    if expect_accept {
                        x.violate(
                            p(15),
                            "C15/refused-though-room",
                            format!("try_push of child {id} refused although fewer than n futures are running"),
                        );
                    }
                });
                drop(val);
            }
            Err(e) => {
                let msg = panic_msg(&e);
                self.stats.refused += 1;
                let is_try = matches!(how, PushHow::TryBack | PushHow::TryFront);
                w(|x| {
                    x.labels |= lb::REFUSED;
                    x.ev(|| format!("  -> panicked: {msg}"));
                    let documented = msg.contains("attempted to push into a full");
                    if expect_accept || !documented || is_try {
                        x.violate(
                            p(15),
                            format!("C15/push-panic/{}", short(&msg)),
                            format!("push of child {id} panicked ({msg}) - expected accept = {expect_accept}, try flavour = {is_try}"),
                        );
                    } else if x.children[id as usize].dropped != 1 && x.children[id as usize].tracked() {
                        let d = x.children[id as usize].dropped;
                        x.violate(
                            p(6) | p(15),
                            "C06/panicking-push-drop-count",
                            format!("push panicked on a full collection and its argument was dropped {d} times"),
                        );
                    }
                });
            }
        }
    }

    /// `Extend::extend` on an ordered collection: children are accepted in order until the bounded
    /// collection is full, the next one makes `push_back` panic (documented), the rest of the iterator
    /// is dropped unused.
    fn extend(&mut self, k: usize, plan: &Plan) {
        if self.subj.is_none() || self.abort || k == 0 {
            return;
        }
        let ids: Vec<Cid> = w(|x| {
            let v: Vec<Cid> = (0..k).map(|_| x.new_child(Role::Fut, plan)).collect();
            x.ev(|| format!("extend with children {v:?} {}", plan_short(plan)));
            v
        });
        let room = match self.bounded_cap {
            Some(cap) => cap.saturating_sub(self.running()),
            None => usize::MAX,
        };
        let had_completion = w(|x| !x.completion_order.is_empty());
        let a0 = alloc::alloc_count();
        let subj = self.subj.as_mut().unwrap();
        let r = catch_unwind(AssertUnwindSafe(|| sut(|| subj.extend(&ids))));
        alloc::reset_depths();
        let n_acc = k.min(room);
        for &id in &ids[..n_acc] {
            w(|x| {
                x.accept(id);
                x.labels |= lb::PUSH_BACK;
                if had_completion {
                    x.labels |= lb::SLOT_REUSE | lb::ACCEPT_AFTER_DONE;
                }
            });
            self.accepted += 1;
            self.stats.pushes += 1;
            self.queue.push_back(id);
        }
        match r {
            Ok(_) => {
                if n_acc < k {
                    w(|x| {
                        x.violate(
                            p(15),
                            "C15/extend-beyond-capacity",
                            format!("extend with {k} children returned normally although only {room} fit"),
                        )
                    });
                }
            }
            Err(e) => {
                alloc::set_alloc_count(a0);
                let msg = panic_msg(&e);
                self.stats.refused += 1;
                w(|x| {
                    x.labels |= lb::REFUSED;
                    x.ev(|| format!("  -> extend panicked: {msg}"));
                    if n_acc == k || !msg.contains("attempted to push into a full") {
                        x.violate(
                            p(15),
                            format!("C15/push-panic/{}", short(&msg)),
                            format!("extend with {k} children panicked ({msg}) although {room} fit"),
                        );
                    }
                });
                // the child that hit the full queue was dropped by push_back; the iterator was never advanced
                // further, so the remaining ScriptFuts were never created: let the ledger know
                for &id in &ids[(n_acc + 1).min(k)..] {
                    drop(ScriptFut::<Plain>::new(id));
                }
            }
        }
    }

    // ---------------------------------------------------------------------------------------
    // observation (after every op)

    fn observe(&mut self) {
        let Some(subj) = self.subj.as_ref() else { return };
        if self.abort {
            return;
        }
        let s = self.case.subj;
        let o = subj.obs();
        let owed = self.owed();
        let running = self.running() as u64;
        // group bookkeeping
        if let Some(g) = &o.groups {
            let n = g.len();
            let cap: usize = g.iter().map(|t| t.0).sum();
            let last = self.last_groups;
            w(|x| {
                if n >= 2 {
                    x.labels |= lb::MULTI_GROUP;
                }
                if n < last {
                    x.labels |= lb::GROUP_DISCARD;
                }
                if n != last {
                    x.epoch += 1;
                }
                x.max_groups = x.max_groups.max(n);
                x.max_cap = x.max_cap.max(cap);
                // C03: the block of every live group must be live in the ledger
                for &(_, _, b) in g {
                    match x.blocks.iter().rposition(|bl| bl.base == b) {
                        Some(i) if !x.blocks[i].released => {}
                        _ => x.violate(
                            p(3),
                            "C03/live-group-block-released",
                            format!("the waker block {b:#x} of a live group is not (or no longer) allocated"),
                        ),
                    }
                }
            });
            self.last_groups = n;
            self.stats.groups_max = self.stats.groups_max.max(n);
        }
        let exp_len = if s.is_merge() { running } else { owed };
        if s.is_collection() || s == Subj::MU {
            w(|x| {
                if let Some(l) = o.len {
                    if l as u64 != exp_len {
                        x.violate(p(15), "C15/len", format!("len() = {l}, model says {exp_len}"));
                    }
                }
                if let Some(e) = o.is_empty {
                    if e != (exp_len == 0) {
                        x.violate(p(15), "C15/is_empty", format!("is_empty() = {e}, model holds {exp_len}"));
                    }
                }
                if s.is_collection() {
                    if let Some(t) = o.term {
                        if t != (exp_len == 0) {
                            x.violate(
                                p(15),
                                "C15/is_terminated",
                                format!("is_terminated() = {t}, model holds {exp_len}"),
                            );
                        }
                    }
                    if let Some(h) = o.hint {
                        if h != (exp_len as usize, Some(exp_len as usize)) {
                            x.violate(
                                p(15) | p(17),
                                "C15/size_hint",
                                format!("size_hint() = {h:?}, model holds {exp_len}"),
                            );
                        }
                    }
                }
            });
        }
        if s == Subj::UB {
            let cap = self.bounded_cap.unwrap_or(0);
            w(|x| {
                if o.cap != Some(cap) {
                    x.violate(p(15), "C15/capacity", format!("capacity() = {:?}, constructed with {cap}", o.cap));
                }
                if o.len.unwrap_or(0) > cap {
                    x.violate(p(15), "C15/len-exceeds-capacity", format!("len {:?} > capacity {cap}", o.len));
                }
            });
        }
        if s == Subj::FE {
            w(|x| {
                if let Some(t) = o.term {
                    let exp = x.up_ended && x.pulled == x.completed;
                    // is_terminated is only meaningful as "will not make progress any more"
                    if t && !exp {
                        x.violate(
                            p(10),
                            "C10/FE/is_terminated-early",
                            "for_each_concurrent reports is_terminated while work remains",
                        );
                    }
                }
            });
        }
        // C17: true bound on what is still to come
        if let Some((lo, up)) = o.hint {
            let rest: Option<u64> = w(|x| {
                if s.is_collection() {
                    Some(owed)
                } else if s.is_merge() {
                    let mut tot = 0u64;
                    for c in x.children.iter().filter(|c| c.role == Role::Source && c.held()) {
                        if c.plan.infinite && !x.stop_infinite {
                            return None;
                        }
                        tot += c.plan.script[c.pos.min(c.plan.script.len())..]
                            .iter()
                            .filter(|s| matches!(s, SStep::Item))
                            .count() as u64;
                    }
                    Some(tot)
                } else if s.is_adapter() {
                    let up = x.children.iter().find(|c| c.role == Role::Upstream)?;
                    if up.plan.infinite && !x.stop_infinite && up.life != Life::Done {
                        return None;
                    }
                    let left = if up.life == Life::Done {
                        0
                    } else {
                        up.plan.script[up.pos.min(up.plan.script.len())..]
                            .iter()
                            .filter(|s| !matches!(s, SStep::Pend(_)))
                            .count() as u64
                    };
                    Some((x.pulled - x.delivered) + left)
                } else {
                    Some(0)
                }
            });
            self.stats.hints_checked += 1;
            let first = self.first_poll_done;
            w(|x| {
                match rest {
                    Some(r) => {
                        if lo as u64 > r || up.map_or(false, |u| (u as u64) < r) {
                            let phase = if x.up_ended { "upstream-ended" } else { "running" };
                            x.violate(
                                p(17),
                                format!("C17/false-bound/{}/{phase}", s.name()),
                                format!("size_hint() = ({lo}, {up:?}) but {r} items are still to come"),
                            );
                        }
                        if first && r > 0 && x.delivered > 0 {
                            x.labels |= lb::OBS_MID;
                        }
                    }
                    None => {
                        if up.is_some() {
                            x.violate(
                                p(17),
                                format!("C17/false-bound/{}/infinite", s.name()),
                                format!("size_hint() = ({lo}, {up:?}) with an endless source"),
                            );
                        }
                    }
                }
            });
            let (d, pu) = w(|x| (x.delivered + x.up_errs_out, x.pushes_accepted - x.pulled));
            if self.hints.len() < 256 {
                self.hints.push(HintRec {
                    lower: lo,
                    upper: up,
                    delivered_then: d,
                    pushes_then: pu,
                });
            }
        }
        if s.is_ordered() {
            w(|x| x.max_owed = x.max_owed.max(owed as usize));
        }
        // population statistics
        let pop = if s.is_merge() { running } else { owed.max(running) };
        self.stats.peak = self.stats.peak.max(pop);
        if pop > self.last_pop && !self.going_up {
            self.going_up = true;
            self.stats.cycles += 1;
        } else if pop < self.last_pop {
            self.going_up = false;
        }
        self.last_pop = pop;
        // C12 accounting
        w(|x| {
            let bound = x.pushes_accepted + x.eff_wakes + x.unattributed + x.rearms;
            if x.child_polls > bound {
                let (cp, pa, ew, un, re) = (x.child_polls, x.pushes_accepted, x.eff_wakes, x.unattributed, x.rearms);
                x.violate(
                    p(12),
                    "C12/polled-without-notification",
                    format!("{cp} child polls > {pa} accepted pushes + {ew} effective wakes + {un} unattributed stale invocations + {re} merge items"),
                );
            }
        });
        // C18
        if self.alloc_on {
            let a = alloc::alloc_count();
            self.stats.allocs = a;
            if self.zero_alloc && a > 0 {
                w(|x| {
                    x.violate(
                        p(18),
                        format!("C18/allocation-after-construction/{}", s.name()),
                        format!("{a} heap allocations inside the crate after construction"),
                    )
                });
                alloc::reset_alloc_count();
            } else if self.log_bound {
                let peak = self.stats.peak;
                let bound = 5 * (ceil_log2(peak + 1) + 2) + 8;
                if a > bound {
                    w(|x| {
                        x.violate(
                            p(18),
                            format!("C18/allocations-not-logarithmic/{}", s.name()),
                            format!("{a} allocations inside the crate with a peak of {peak} held children (bound {bound})"),
                        )
                    });
                    alloc::reset_alloc_count();
                }
            }
        }
    }

    // ---------------------------------------------------------------------------------------
    // other ops

    fn held_fut_ids(&self) -> Vec<Cid> {
        w(|x| x.held_ids())
    }

    fn complete(&mut self, id: Cid) {
        w(|x| {
            x.children[id as usize].ready = true;
            x.ev(|| format!("complete child {id}"));
        });
        use_stashed(id, 0, How::ByRef);
    }

    fn exec(&mut self, k: usize, max: usize, stop_at_item: bool) -> (bool, bool) {
        // returns (got an item, finished)
        let mut got = false;
        for _ in 0..max {
            match self.poll(k) {
                None => return (got, true),
                Some(PollOut::Item(_)) => {
                    got = true;
                    if stop_at_item || (self.resolved && self.case.subj.is_join()) {
                        return (got, false);
                    }
                }
                Some(PollOut::Done) => return (got, true),
                Some(PollOut::Pending) => {
                    if !w(|x| x.task_woken_since_poll_start(k % NW)) {
                        return (got, false);
                    }
                }
            }
        }
        (got, false)
    }

    fn settle(&mut self, k: usize) {
        if self.subj.is_none() || self.abort {
            return;
        }
        let k = k % NW;
        let (held, v) = w(|x| {
            x.frozen = true;
            x.ev(|| "settle: every child frozen (pending, silent)".to_string());
            (x.held_count() as u64, x.stale_invocations_since_clean)
        });
        if held >= 2 {
            w(|x| x.labels |= lb::SETTLED);
        }
        // I3: a call may wake its own task only after a full budget of queue entries; stale entries must be worked
        // off at the same rate as live ones. The budget is measured on the crate under test, not assumed.
        let b = measured_budget();
        let bound = held + 2 + (v + b - 1) / b;
        let mut spins = 0u64;
        let mut guard = 0u64;
        loop {
            guard += 1;
            if guard > bound + self.owed() + 8 {
                break;
            }
            match self.poll(k) {
                None | Some(PollOut::Done) => break,
                Some(PollOut::Item(_)) => {
                    if self.resolved && self.case.subj.is_join() {
                        break;
                    }
                }
                Some(PollOut::Pending) => {
                    if !w(|x| x.task_woken_since_poll_start(k)) {
                        break; // clean Pending reached
                    }
                    spins += 1;
                    if spins > bound {
                        w(|x| {
                            x.violate(
                                p(14),
                                "C14/busy-spin",
                                format!("{spins} consecutive polls returned Pending with the task waker invoked although every one of the {held} held children is pending and silent (bound {bound})"),
                            )
                        });
                        break;
                    }
                }
            }
        }
        w(|x| x.frozen = false);
    }

    fn drop_subject(&mut self) {
        if let Some(sj) = self.subj.take() {
            let owed = self.owed();
            let is_join = self.case.subj.is_join();
            w(|x| {
                x.ev(|| "drop the subject".to_string());
                x.subject_dropping = true;
                let held = x.held_count() as u64;
                if held > 0 {
                    x.labels |= lb::EARLY_DROP_RUNNING;
                }
                let done_undelivered = x
                    .children
                    .iter()
                    .filter(|c| c.role == Role::Fut && c.accepted && c.life == Life::Done && !c.yielded)
                    .count();
                if done_undelivered > 0 || (owed > held && !is_join) {
                    x.labels |= lb::EARLY_DROP_PARKED;
                }
            });
            let r = catch_unwind(AssertUnwindSafe(|| sut(|| drop(sj))));
            alloc::reset_depths();
            w(|x| {
                x.subject_dropping = false;
                x.subject_alive = false;
            });
            if let Err(e) = r {
                let msg = panic_msg(&e);
                w(|x| {
                    if msg.contains("VERIF_STOP") {
                        return;
                    }
                    x.violate(
                        ALL_PROPS,
                        format!("Cxx/panic-in-drop/{}", short(&msg)),
                        format!("dropping the subject panicked: {msg}"),
                    )
                });
                self.abort = true;
            }
        }
    }

    fn apply(&mut self, op: &Op) {
        let alive = self.subj.is_some();
        match op {
            Op::Push(pl) => self.push(pl, PushHow::Back),
            Op::PushFront(pl) => self.push(pl, PushHow::Front),
            Op::TryPush(pl) => self.push(pl, PushHow::TryBack),
            Op::TryPushFront(pl) => self.push(pl, PushHow::TryFront),
            Op::PushMany(k, pl) => {
                for _ in 0..*k {
                    self.push(pl, PushHow::TryBack);
                    if self.abort {
                        break;
                    }
                }
            }
            Op::Extend(k, pl) => {
                if matches!(self.case.subj, Subj::OB | Subj::OU) {
                    self.extend(*k as usize, pl);
                } else {
                    for _ in 0..*k {
                        self.push(pl, PushHow::TryBack);
                        if self.abort {
                            break;
                        }
                    }
                }
            }
            Op::Poll(k) => {
                self.poll(*k as usize);
            }
            Op::PollMany(k, n) => {
                for _ in 0..*n {
                    match self.poll(*k as usize) {
                        Some(PollOut::Item(_)) => {
                            if self.resolved && self.case.subj.is_join() {
                                break;
                            }
                        }
                        _ => break,
                    }
                }
            }
            Op::Exec(k, n) => {
                self.exec(*k as usize, *n as usize, false);
            }
            Op::SetReady(sel) => {
                if let Some(id) = pick(&self.held_fut_ids(), *sel) {
                    w(|x| {
                        x.children[id as usize].ready = true;
                        x.ev(|| format!("set child {id} ready (no wake)"));
                    });
                }
            }
            Op::Complete(sel) => {
                if let Some(id) = pick(&self.held_fut_ids(), *sel) {
                    self.complete(id);
                }
            }
            Op::CompleteMany(sel, k) => {
                let ids = self.held_fut_ids();
                if !ids.is_empty() {
                    let start = (*sel as usize * ids.len()) >> 16;
                    for i in 0..(*k as usize).min(ids.len()) {
                        self.complete(ids[(start + i) % ids.len()]);
                    }
                }
            }
            Op::CompleteAllBut(sel) => {
                let ids = self.held_fut_ids();
                if let Some(skip) = pick(&ids, *sel) {
                    for id in ids {
                        if id != skip {
                            self.complete(id);
                        }
                    }
                }
            }
            Op::Wake(sel, how) => {
                let c: Vec<Cid> = w(|x| {
                    x.held_ids()
                        .into_iter()
                        .filter(|&i| !x.children[i as usize].stash.is_empty())
                        .collect()
                });
                match pick(&c, *sel) {
                    Some(id) => {
                        use_stashed(id, *sel as usize, How::from_u8(*how));
                    }
                    None => {
                        if alive {
                            self.poll(0);
                        }
                    }
                }
            }
            Op::WakeStale(sel, how) => {
                let c: Vec<Cid> = w(|x| {
                    (0..x.children.len() as Cid)
                        .filter(|&i| {
                            let ch = &x.children[i as usize];
                            !ch.held() && ch.role != Role::Upstream && !ch.stash.is_empty()
                        })
                        .collect()
                });
                if let Some(id) = pick(&c, *sel) {
                    use_stashed(id, *sel as usize, How::from_u8(*how));
                }
            }
            Op::UpWake => self.up_wake(),
            Op::Move => {
                if let Some(sj) = self.subj.take() {
                    if sj.can_move() {
                        w(|x| {
                            x.epoch += 1;
                            x.ev(|| "move the subject to a new location".to_string());
                        });
                    }
                    self.subj = Some(sj.relocate());
                }
            }
            Op::Settle => self.settle(0),
            Op::DropSubject => {
                self.stats.dropped_early = self.subj.is_some();
                self.drop_subject()
            }
            Op::DropStaleWakers => {
                let ids: Vec<Cid> = w(|x| {
                    (0..x.children.len() as Cid)
                        .filter(|&i| !x.children[i as usize].held())
                        .collect()
                });
                for id in ids {
                    let st = w(|x| std::mem::take(&mut x.children[id as usize].stash));
                    alloc::vt(|| drop(st));
                }
            }
            Op::Refill(n, pl) => {
                for _ in 0..*n {
                    if self.subj.is_none() || self.abort {
                        break;
                    }
                    match self.poll(0) {
                        Some(PollOut::Item(_)) | Some(PollOut::Done) => self.push(pl, PushHow::TryBack),
                        Some(PollOut::Pending) => {
                            if !w(|x| x.task_woken_since_poll_start(0)) {
                                // the task would sleep now: let the environment complete the oldest child
                                if let Some(&id) = self.held_fut_ids().first() {
                                    self.complete(id);
                                }
                            }
                        }
                        None => break,
                    }
                }
            }
        }
    }

    fn up_wake(&mut self) {
        let wk = w(|x| {
            x.children
                .iter_mut()
                .find(|c| c.role == Role::Upstream)
                .and_then(|c| c.task_stash.take())
        });
        if let Some(wk) = wk {
            let before: u64 = w(|x| {
                x.ev(|| "external wake of upstream".to_string());
                x.bracket += 1;
                x.task_wakes.iter().sum()
            });
            wk.wake_by_ref();
            w(|x| {
                x.bracket -= 1;
                // the waker an adapter hands to its upstream must reach the adapter's task
                let after: u64 = x.task_wakes.iter().sum();
                if after == before && x.subject_alive {
                    x.violate(
                        p(1) | p(10),
                        "C01/upstream-waker-does-not-wake-task",
                        "upstream answered Pending and later invoked the waker it was given, but no task waker of the adapter was invoked",
                    );
                }
            });
            drop(wk);
        }
    }

    // ---------------------------------------------------------------------------------------
    // epilogue

    fn epilogue(&mut self) {
        if self.abort {
            return;
        }
        if self.subj.is_some() {
            w(|x| {
                x.frozen = false;
                x.stop_infinite = true;
                x.ev(|| "--- epilogue: honest environment drives to completion".to_string());
            });
            let is_join = self.case.subj.is_join();
            let mut idle_rounds = 0;
            let mut rounds = 0u64;
            let max_rounds = 6 * (self.held() + self.owed() + self.case.cfg.upstream.len() as u64 + 8);
            let mut finished = false;
            while !finished && !self.abort {
                if is_join && self.resolved {
                    break;
                }
                rounds += 1;
                for id in self.held_fut_ids() {
                    w(|x| x.children[id as usize].ready = true);
                    use_stashed(id, 0, How::ByRef);
                }
                self.up_wake();
                let before = w(|x| x.progress_stamp());
                let lim = 4 * (self.held() as usize + 4);
                let (_, fin) = self.exec(0, lim, false);
                finished = fin;
                let after = w(|x| x.progress_stamp());
                if before == after && !finished {
                    idle_rounds += 1;
                } else {
                    idle_rounds = 0;
                }
                if (idle_rounds >= 3 || rounds > max_rounds) && !finished && w(|x| x.lenient) {
                    // a child panicked earlier in this case: nothing is promised about progress any more
                    break;
                }
                if (idle_rounds >= 3 || rounds > max_rounds) && !finished && !(is_join && self.resolved) {
                    let pr = self.class_props();
                    let (h, o) = (self.held(), self.owed());
                    let s = self.case.subj;
                    w(|x| {
                        let sig = if s == Subj::FE && x.limit == 0 && !x.up_polled_in_call {
                            "C10/FE/limit=0/upstream-never-polled".to_string()
                        } else {
                            format!("{}/stuck", prop_name(pr))
                        };
                        x.violate(
                            pr,
                            sig,
                            format!("kept polling with every child completed and woken, but the subject stays Pending: {h} children held, {o} outputs owed, idle rounds {idle_rounds}, rounds {rounds}"),
                        )
                    });
                    break;
                }
            }
            if finished {
                self.stats.drained = true;
            }
            // joins: continuation after the first Ready
            if is_join && self.resolved && !self.abort {
                for _ in 0..self.case.repolls {
                    for id in self.held_fut_ids() {
                        w(|x| x.children[id as usize].ready = true);
                        use_stashed(id, 0, How::ByRef);
                    }
                    if self.poll(0).is_none() {
                        break;
                    }
                }
            }
            if !self.abort {
                self.observe();
                self.check_measured_hints();
                self.drop_subject();
            }
        }
        if self.abort {
            return;
        }
        // harness lets go of everything it still holds
        let n = w(|x| x.children.len());
        for id in 0..n {
            let (st, ts) = w(|x| {
                (
                    std::mem::take(&mut x.children[id].stash),
                    x.children[id].task_stash.take(),
                )
            });
            alloc::vt(|| drop(st));
            drop(ts);
        }
        let wk = std::mem::take(&mut self.wakers);
        drop(wk);
        // final ledgers
        let tw_alive = task_wakers_alive();
        w(|x| {
            // the subject, every child, every child waker and the harness' own handles are gone: whoever still
            // references a task waker is shared waker state that was not torn down (the registration cell of a
            // block, I15)
            if tw_alive != 0 && x.blocks.iter().all(|b| b.released) && !x.children.iter().any(|c| c.dropped == 0 && c.tracked()) {
                x.violate(
                    p(3),
                    "C03/task-waker-leaked",
                    format!("{tw_alive} task-waker objects are still referenced after the subject, its children and every waker are gone and every waker block was reported released: the shared state of a block was not destroyed with it"),
                );
            }
            let mut leaked_children = Vec::new();
            for (i, c) in x.children.iter().enumerate() {
                if c.dropped == 0 && c.tracked() {
                    leaked_children.push(i);
                }
            }
            if let Some(f) = leaked_children.first() {
                let role = x.children[*f].role;
                x.violate(
                    p(6),
                    format!("C06/child-leaked/{role:?}"),
                    format!("{} children were never dropped (first: {f})", leaked_children.len()),
                );
            }
            let mut leaked = Vec::new();
            for (i, t) in x.toks.iter().enumerate() {
                if t.dropped == 0 && t.kind != TokKind::OutPlain {
                    leaked.push((i, t.child, t.kind));
                }
            }
            if let Some(f) = leaked.first() {
                x.violate(
                    p(6),
                    format!("C06/output-leaked/{:?}", f.2),
                    format!("{} produced values were never dropped (first: value #{} of child {})", leaked.len(), f.0, f.1),
                );
            }
            let mut bl = Vec::new();
            for b in x.blocks.iter() {
                if !b.released {
                    bl.push((b.base, b.live_clones));
                }
            }
            if let Some(f) = bl.first() {
                x.violate(
                    p(3),
                    "C03/block-leaked",
                    format!("{} waker blocks never released after the subject and every waker are gone (first {:#x}, {} clones accounted live)", bl.len(), f.0, f.1),
                );
            }
        });
    }

    /// C17 cross-check without a model: what actually came out after an observation
    fn check_measured_hints(&mut self) {
        if !self.stats.drained || self.case.subj.is_join() || self.case.subj.is_merge() || self.case.cfg.up_infinite {
            return;
        }
        let (d, pu) = w(|x| (x.delivered + x.up_errs_out, x.pushes_accepted - x.pulled));
        let hints = std::mem::take(&mut self.hints);
        let s = self.case.subj;
        for h in hints {
            if h.pushes_then != pu {
                continue;
            }
            let measured = d - h.delivered_then;
            if h.lower as u64 > measured || h.upper.map_or(false, |u| (u as u64) < measured) {
                w(|x| {
                    x.violate(
                        p(17),
                        format!("C17/false-bound-measured/{}", s.name()),
                        format!(
                            "size_hint() was ({}, {:?}) but {measured} items were yielded afterwards",
                            h.lower, h.upper
                        ),
                    )
                });
                break;
            }
        }
    }
}

pub fn short(msg: &str) -> String {
    let s: String = msg
        .chars()
        .map(|c| if c.is_ascii_alphanumeric() { c } else { '-' })
        .collect();
    let mut out = String::new();
    let mut last = '-';
    for c in s.chars() {
        if !(c == '-' && last == '-') {
            out.push(c);
        }
        last = c;
    }
    out.trim_matches('-').chars().take(48).collect()
}

pub fn prop_name(props: u32) -> String {
    for n in 1..=18 {
        if props & p(n) != 0 {
            return format!("C{n:02}");
        }
    }
    "Cxx".into()
}

pub fn plan_short(pl: &Plan) -> String {
    let mut s = String::from("{");
    if pl.ready {
        s.push_str("ready ");
    }
    if pl.fail {
        s.push_str("fail ");
    }
    if pl.self_wake > 0 {
        s.push_str(&format!("selfwake={} ", pl.self_wake));
    }
    if pl.stash > 1 {
        s.push_str("stash-all ");
    }
    if pl.wake_on_complete {
        s.push_str("wake-on-complete ");
    }
    if let Some(a) = pl.on_poll {
        s.push_str(&format!("on_poll={a:?} "));
    }
    if let Some(a) = pl.on_drop {
        s.push_str(&format!("on_drop={a:?} "));
    }
    if !pl.script.is_empty() || pl.infinite {
        s.push_str(&format!("script={:?}{} ", pl.script, if pl.infinite { "+inf" } else { "" }));
    }
    s.push('}');
    s
}

// ------------------------------------------------------------------------------------------------
// probes

pub fn probe_cb(pr: futures_buffered::verif::Probe) {
    use futures_buffered::verif::{Probe, VtableFn};
    let _cb = crate::alloc::CbGuard::new();
    let uaf = WORLD.with(|cell| {
        let Ok(mut x) = cell.try_borrow_mut() else {
            // a probe under a world borrow would be a harness bug; make it loud
            eprintln!("HARNESS BUG: probe while the world is borrowed: {pr:?}");
            std::process::abort();
        };
        let x = &mut *x;
        if !x.active {
            return false;
        }
        let mut stop = false;
        match pr {
            Probe::BlockAlloc { base, size, cap } => {
                x.ev(|| format!("    [block {base:#x} allocated, cap {cap}]"));
                if cap == 0 {
                    x.labels |= lb::CAP0;
                }
                if cap == 1 {
                    x.labels |= lb::CAP1;
                }
                x.blocks.push(Block {
                    base,
                    size,
                    cap,
                    live_clones: 0,
                    list_alive: true,
                    released: false,
                });
                false
            }
            Probe::ListDrop { base } => {
                match x.blocks.iter().rposition(|b| b.base == base && !b.released) {
                    Some(i) => {
                        if !x.blocks[i].list_alive {
                            x.violate(p(3), "C03/list-dropped-twice", format!("the owner of block {base:#x} released its reference twice"));
                            stop = true;
                        }
                        x.blocks[i].list_alive = false;
                    }
                    None => {
                        x.violate(p(3), "C03/use-after-release", format!("a WakerList whose block {base:#x} is released or unknown was dropped"));
                        stop = true;
                    }
                }
                stop
            }
            Probe::BlockRelease { base } => {
                x.ev(|| format!("    [block {base:#x} released]"));
                match x.blocks.iter().rposition(|b| b.base == base) {
                    Some(i) => {
                        if x.blocks[i].released {
                            x.violate(p(3), "C03/double-release", format!("waker block {base:#x} released twice"));
                            stop = true;
                        } else {
                            x.blocks[i].released = true;
                            let lc = x.blocks[i].live_clones;
                            let la = x.blocks[i].list_alive;
                            if lc != 0 || la {
                                x.violate(
                                    p(3),
                                    "C03/released-while-referenced",
                                    format!("waker block {base:#x} released while {lc} waker clones are outstanding and its collection/group holds its reference = {la}"),
                                );
                                // do not let the crate destroy a block that is still referenced
                                x.blocks[i].released = false;
                                stop = true;
                            }
                            if x.subject_alive && !x.subject_dropping && !x.in_poll {
                                // only a discarded group of an unbounded subject may die while the subject lives;
                                // whether the group is really gone is checked by observe() against verif_groups
                                x.labels |= lb::FREED_BY_WAKER;
                            }
                            if !x.subject_alive {
                                x.labels |= lb::FREED_BY_WAKER;
                            }
                        }
                        if !stop {
                            crate::alloc::quarantine_next(base);
                        }
                    }
                    None => {
                        x.violate(p(3), "C03/release-of-unknown-block", format!("release of unknown block {base:#x}"));
                        stop = true;
                    }
                }
                stop
            }
            Probe::Vtable { kind, slot } => match x.block_of(slot) {
                Some(i) if !x.blocks[i].released => {
                    match kind {
                        VtableFn::Clone => x.blocks[i].live_clones += 1,
                        VtableFn::Drop => {
                            x.blocks[i].live_clones -= 1;
                            if x.blocks[i].live_clones < 0 {
                                let b = x.blocks[i].base;
                                x.violate(
                                    p(3),
                                    "C03/more-drops-than-clones",
                                    format!("more waker drops than clones on block {b:#x}"),
                                );
                                x.blocks[i].live_clones = 0;
                            }
                        }
                        _ => {}
                    }
                    false
                }
                _ => {
                    x.violate(
                        p(3),
                        "C03/use-after-release",
                        format!("waker vtable {kind:?} entered with slot {slot:#x} whose block is released or unknown"),
                    );
                    true
                }
            },
        }
    });
    // a ledger violation means the crate is about to touch or destroy memory it does not own:
    // unwind out of the crate before it happens (the case is abandoned, the violation is recorded)
    if uaf && !std::thread::panicking() {
        panic!("VERIF_STOP: waker block ledger violated");
    }
}

pub fn install_hooks() {
    // measure the crate's per-call budget before any probe is installed and before any case is active
    let _ = measured_budget();
    futures_buffered::verif::set_probe(Some(probe_cb));
}

// ------------------------------------------------------------------------------------------------

/// Runs one case. A controlled stop (`VERIF_STOP` panic raised by a probe) ends the case early with the
/// violations recorded so far; any other panic is a harness bug and is propagated.
/// `focus`: bit mask of the properties under check - the case is abandoned (subject leaked) as soon as one of
/// them is violated, because a crate in a broken state may never return from a later call (e.g. its drop).
pub fn run_case(case: &Case, trace: bool, alloc_on: bool, focus: u32) -> CaseResult {
    match catch_unwind(AssertUnwindSafe(|| run_case_inner(case, trace, alloc_on, focus))) {
        Ok(r) => r,
        Err(e) => {
            let msg = panic_msg(&e);
            alloc::reset_depths();
            alloc::set_poison(false);
            if msg.starts_with("VERIF_STOP") {
                let (violations, labels, log) = WORLD.with(|c| match c.try_borrow_mut() {
                    Ok(mut x) => (std::mem::take(&mut x.violations), x.labels, std::mem::take(&mut x.log)),
                    Err(_) => (Vec::new(), 0, Vec::new()),
                });
                reset_world(false);
                CaseResult {
                    violations,
                    labels,
                    stats: CaseStats::default(),
                    log,
                    aborted: true,
                }
            } else {
                std::panic::resume_unwind(e)
            }
        }
    }
}

fn run_case_inner(case: &Case, trace: bool, alloc_on: bool, focus: u32) -> CaseResult {
    alloc::release_quarantine();
    let _ = alloc::take_overrun();
    reset_world(trace);
    alloc::reset_depths();
    alloc::set_poison(true);
    let s = case.subj;
    w(|x| {
        x.subject_alive = true;
        x.active = true;
        x.class = if s.is_collection() {
            0
        } else if s.is_merge() {
            1
        } else if s.is_adapter() {
            2
        } else if s == Subj::JA {
            3
        } else {
            4
        };
        x.ev(|| format!("=== {} cfg: cap={} ctor={} initial={} start_index={:#x} upstream={:?} hint={} repolls={}", s.name(), case.cfg.cap, case.cfg.ctor, case.cfg.initial.len(), case.cfg.start_index, case.cfg.upstream, case.cfg.up_hint, case.repolls));
    });
    let built = catch_unwind(AssertUnwindSafe(|| build(s, &case.cfg)));
    alloc::reset_depths();
    let bounded_cap = match s {
        Subj::UB | Subj::OB => Some(if case.cfg.ctor == 2 { case.cfg.initial.len() } else { case.cfg.cap }),
        Subj::MB => Some(case.cfg.initial.len()),
        _ => None,
    };
    let mut run = Run {
        case,
        subj: None,
        wakers: make_task_wakers(),
        queue: VecDeque::new(),
        accepted: 0,
        yielded: 0,
        bounded_cap,
        resolved: false,
        abort: false,
        stats: CaseStats::default(),
        hints: Vec::new(),
        last_groups: 0,
        going_up: false,
        last_pop: 0,
        zero_alloc: matches!(s, Subj::UB | Subj::MB | Subj::BU | Subj::TBU | Subj::JA | Subj::TJA)
            || (s == Subj::FE && case.cfg.cap >= 1),
        log_bound: matches!(s, Subj::UU | Subj::OU | Subj::MU),
        alloc_on,
        first_poll_done: false,
        merge_started: false,
    };
    match built {
        Ok(sj) => {
            run.subj = Some(sj);
            // children present from the start
            let ids: Vec<Cid> = w(|x| {
                (0..x.children.len() as Cid)
                    .filter(|&i| x.children[i as usize].accepted && x.children[i as usize].role != Role::Upstream)
                    .collect()
            });
            run.accepted = ids.len() as u64;
            run.stats.pushes = ids.len() as u64;
            if s.is_ordered() {
                run.queue.extend(ids.iter().copied());
            }
            if s.is_adapter() {
                w(|x| x.max_cap = case.cfg.cap.max(1));
            } else if s.is_join() || s == Subj::MB {
                w(|x| x.max_cap = case.cfg.initial.len());
            }
            if s.is_ordered() {
                let si = case.cfg.start_index;
                const MSB: u64 = 1 << 63;
                let near = |a: u64, b: u64| a.wrapping_sub(b) < 512 || b.wrapping_sub(a) < 512;
                if near(si, MSB) || near(si, u64::MAX) || (si != 0 && near(si, 0)) {
                    w(|x| x.labels |= lb::WRAP);
                }
            }
            alloc::reset_alloc_count();
            run.observe();
        }
        Err(e) => {
            let msg = panic_msg(&e);
            w(|x| {
                x.violate(
                    p(15),
                    format!("C15/ctor-panic/{}", s.name()),
                    format!("constructing {} with capacity {} panicked: {msg}", s.name(), case.cfg.cap),
                )
            });
            run.abort = true;
            w(|x| x.subject_alive = false);
        }
    }
    for op in &case.ops {
        if run.abort {
            break;
        }
        if run.subj.is_none() && !matches!(op, Op::Wake(..) | Op::WakeStale(..) | Op::DropStaleWakers) {
            continue;
        }
        w(|x| x.ev(|| format!("op {op:?}")));
        run.apply(op);
        if !run.abort {
            run.observe();
        }
        if !run.abort && w(|x| x.violations.iter().any(|v| v.props & focus != 0)) {
            w(|x| x.ev(|| "-- a property under check is violated: the case is abandoned here".to_string()));
            run.abandon();
        }
    }
    run.epilogue();
    alloc::set_poison(false);
    let aborted = run.abort;
    let stats = {
        let mut st = run.stats.clone();
        w(|x| {
            st.child_polls = x.child_polls;
            st.invocations = x.invocations;
            st.pulled = x.pulled;
        });
        st
    };
    drop(run);
    let (violations, mut labels, log, order) = w(|x| {
        (
            std::mem::take(&mut x.violations),
            x.labels,
            std::mem::take(&mut x.log),
            std::mem::take(&mut x.completion_order),
        )
    });
    // completion order != acceptance order
    let oo = w(|x| {
        let mut maxp = 0u64;
        let mut oo = false;
        for c in &order {
            let ps = x.children[*c as usize].pushed_seq;
            if ps < maxp {
                oo = true;
            }
            maxp = maxp.max(ps);
        }
        oo
    });
    if oo {
        labels |= lb::OOO;
    }
    let two_src = w(|x| {
        let srcs: Vec<&Child> = x.children.iter().filter(|c| c.role == Role::Source).collect();
        let multi = srcs.iter().filter(|c| c.next_seq_expected >= 2).count() >= 2;
        let gap = srcs
            .iter()
            .any(|c| c.plan.script[..c.pos.min(c.plan.script.len())].iter().any(|s| matches!(s, SStep::Pend(_))));
        multi && gap
    });
    if two_src {
        labels |= lb::TWO_SRC;
    }
    if stats.cycles >= 3 {
        labels |= lb::CYCLES3;
    }
    if stats.yielded >= 20 * stats.peak.max(1) {
        labels |= lb::MANY_PROCESSED;
    }
    // C03: nothing may have been written into a waker block after it was freed
    let mut violations = violations;
    for (p_, s_, off, b) in alloc::check_quarantine() {
        violations.push(Violation {
            props: p(3),
            sig: "C03/write-after-free".into(),
            msg: format!("the freed waker block {p_:#x} ({s_} bytes) was written to after its release: offset {off} holds {b:#04x}"),
        });
    }
    // leave nothing behind for the next case on this thread
    reset_world(false);
    alloc::release_quarantine();
    if let Some((p_, s_, off)) = alloc::take_overrun() {
        violations.push(Violation {
            props: p(3) | p(7),
            sig: "C03/write-past-end-of-allocation".into(),
            msg: format!("the guard zone behind the {s_}-byte heap block {p_:#x} was overwritten at offset +{off}: something wrote past the end of its allocation"),
        });
    }
    CaseResult {
        violations,
        labels,
        stats,
        log,
        aborted,
    }
}


/// The per-call budget of the crate under test, measured once per process: how often one permanently self-waking
/// child of a capacity-1 `FuturesUnorderedBounded` is polled by a single `poll_next` before the call gives up.
/// (61 today. A crate without any budget is cut off at 100000 and reported by the C13 checks, not here.)
pub fn measured_budget() -> u64 {
    use std::future::Future;
    use std::pin::Pin;
    use std::sync::atomic::{AtomicU64, Ordering};
    use std::sync::OnceLock;
    use std::task::Poll;
    static B: OnceLock<u64> = OnceLock::new();
    static CNT: AtomicU64 = AtomicU64::new(0);
    struct Spin;
    impl Future for Spin {
        type Output = ();
        fn poll(self: Pin<&mut Self>, cx: &mut Context<'_>) -> Poll<()> {
            if CNT.fetch_add(1, Ordering::Relaxed) < 100_000 {
                cx.waker().wake_by_ref();
            }
            Poll::Pending
        }
    }
    struct Noop;
    impl std::task::Wake for Noop {
        fn wake(self: std::sync::Arc<Self>) {}
    }
    *B.get_or_init(|| {
        CNT.store(0, Ordering::Relaxed);
        let mut q = futures_buffered::FuturesUnorderedBounded::new(1);
        q.push(Spin);
        let wk = Waker::from(std::sync::Arc::new(Noop));
        let mut cx = Context::from_waker(&wk);
        let _ = futures_core::Stream::poll_next(Pin::new(&mut q), &mut cx);
        drop(q);
        CNT.load(Ordering::Relaxed).max(1)
    })
}
