//! The scripted environment: one `World` per case (thread-local), holding every observable fact the
//! oracles need. All call-backs of the crate under test (child poll / drop, upstream poll, task
//! waker, probes) end up here.

use crate::alloc::{vt, CbGuard};
use serde::{Deserialize, Serialize};
use std::cell::RefCell;
use std::sync::Arc;
use std::task::{Wake, Waker};

pub type Cid = u32;

pub const NW: usize = 3; // task wakers in the pool
/// today's per-call child budget of one group; used for coverage labels only, never by an oracle
pub const BUDGET: u64 = 61;
/// C13 oracle B: child polls one call may make per (group visit x event). The property only says "bounded";
/// the crate's budget (61 today) is an implementation choice, so the constant is deliberately far above it.
/// What is being caught is work that grows with the children's self-waking, which is unbounded (hard cap).
pub const WORK_UNIT: u64 = 1024;
/// hard cap of child polls inside one call into the subject; an unbounded loop becomes a panic
pub const HARD_CAP: u64 = 200_000;

pub const fn p(n: u32) -> u32 {
    1 << n
}

#[derive(Clone, Debug)]
pub struct Violation {
    /// bit n set = property Cnn
    pub props: u32,
    pub sig: String,
    pub msg: String,
}

#[derive(Clone, Copy, Debug, PartialEq, Eq, Serialize, Deserialize)]
pub enum Action {
    /// wake (by ref) a stashed waker of the child selected
    WakeRef(u16),
    /// clone a stashed waker of the selected child and wake the clone by value
    WakeVal(u16),
    /// clone a stashed waker of the selected child, add it to its stash
    CloneStash(u16),
    /// drop one stashed waker of the selected child
    DropStash(u16),
    /// mark the selected held child ready and wake it
    Complete(u16),
}

#[derive(Clone, Copy, Debug, PartialEq, Eq, Serialize, Deserialize)]
pub enum SStep {
    Item,
    /// pending gap; `true` = wakes itself, `false` = needs an external wake
    Pend(bool),
    /// (upstream of try adapters only) an upstream error
    Err,
}

#[derive(Clone, Debug, PartialEq, Eq, Serialize, Deserialize, Default)]
pub struct Plan {
    /// future: returns Ready at its next poll
    pub ready: bool,
    /// future of a try-combinator: resolves to Err
    pub fail: bool,
    /// 0 never, 1..=250 that many times, 255 forever (while pending)
    pub self_wake: u8,
    /// 1 keep the latest waker, 2 keep every clone (up to 4)
    pub stash: u8,
    /// also wake itself in the poll in which it completes
    pub wake_on_complete: bool,
    pub on_poll: Option<Action>,
    pub on_drop: Option<Action>,
    /// sources (merge children) only
    pub script: Vec<SStep>,
    /// source keeps yielding items after its script until the environment stops it
    pub infinite: bool,
    /// future: its first k polls panic (after parking a waker) - the caller catches the unwind and goes on
    #[serde(default)]
    pub panic_polls: u8,
}

#[derive(Clone, Copy, Debug, PartialEq, Eq)]
pub enum Life {
    Fresh,
    Polled,
    Done,
}

#[derive(Clone, Copy, Debug, PartialEq, Eq)]
pub enum Role {
    Fut,
    Source,
    Upstream,
}

pub struct Child {
    pub role: Role,
    pub life: Life,
    pub dropped: u32,
    pub accepted: bool,
    pub plan: Plan,
    pub ready: bool,
    pub self_wake: u8,
    pub stash: Vec<Waker>,
    pub task_stash: Option<Waker>,
    pub slot: usize,
    pub addr: usize,
    pub polls: u32,
    pub dirty: bool,
    /// dirty because one of its own wakers was invoked since its last poll began
    pub dirty_wake: bool,
    /// number of collection polls that had begun when the child was accepted
    pub accept_seq: u64,
    pub dirty_since: u64,
    pub woke: bool,
    pub pos: usize,
    pub last_pending: bool,
    pub items_out: u32,
    pub next_seq_expected: u32,
    pub yielded: bool,
    pub upstream_kind: u8,
    pub polled_in_call: bool,
    pub pushed_seq: u64,
    pub epoch: u32,
    pub panic_left: u8,
    /// the future type of this child has no destructor: its drop cannot be observed
    pub no_drop_glue: bool,
}

impl Child {
    pub fn held(&self) -> bool {
        self.accepted && self.life != Life::Done && self.dropped == 0
    }
    /// the drop of this child is observable
    pub fn tracked(&self) -> bool {
        !self.no_drop_glue
    }
}

#[derive(Clone, Copy, Debug, PartialEq, Eq)]
pub enum TokKind {
    Out,
    /// output without drop glue: not drop-tracked
    OutPlain,
    Err,
    UpErr,
    MItem,
}

pub struct Tok {
    pub kind: TokKind,
    pub child: Cid,
    pub seq: u32,
    pub dropped: u32,
    pub handed_out: bool,
}

pub struct Block {
    pub base: usize,
    pub size: usize,
    pub cap: usize,
    pub live_clones: i64,
    /// the collection / group that created the block still holds its own reference
    pub list_alive: bool,
    pub released: bool,
}

/// label bits (evidence strata / non-triviality rules)
pub mod lb {
    pub const WAKE_BETWEEN: u64 = 1 << 0; // own waker of a held child invoked after a Pending poll, outside polls
    pub const WAKE_DURING: u64 = 1 << 1; // ... during a collection poll
    pub const BUDGET: u64 = 1 << 2; // a single call made >= 61 child polls
    pub const MULTI_GROUP: u64 = 1 << 3; // >= 2 groups existed at once
    pub const WAKER_CHANGED: u64 = 1 << 4; // two consecutive polls used different task wakers
    pub const SLOT_REUSE: u64 = 1 << 5; // a push was accepted after a completion (bounded: slot reuse)
    pub const GROUP_DISCARD: u64 = 1 << 6; // number of groups went down
    pub const OOO: u64 = 1 << 7; // completion order != acceptance order
    pub const STALE_WAKE: u64 = 1 << 8; // waker of a finished child invoked
    pub const STALE_REUSED: u64 = 1 << 9; // ... and its slot belonged to another held child
    pub const WAKE_AFTER_DROP: u64 = 1 << 10; // waker used after the subject was dropped
    pub const FREED_BY_WAKER: u64 = 1 << 11; // a block was released by a waker drop
    pub const CAP0: u64 = 1 << 12;
    pub const PARKED: u64 = 1 << 13; // ordered: an output was parked behind a pending head
    pub const PUSH_FRONT: u64 = 1 << 14;
    pub const PUSH_BACK: u64 = 1 << 15;
    pub const WRAP: u64 = 1 << 16; // position counters crossed 0 / 2^63 / MAX
    pub const LATER_POLL_AFTER_STALE: u64 = 1 << 17;
    pub const SELF_WAKE_ON_COMPLETE: u64 = 1 << 18;
    pub const SOURCE_ENDED: u64 = 1 << 19;
    pub const EARLY_DROP_RUNNING: u64 = 1 << 20; // subject dropped while holding a running child
    pub const EARLY_DROP_PARKED: u64 = 1 << 21; // ... or an undelivered output
    pub const AFTER_ERR: u64 = 1 << 22;
    pub const MOVED: u64 = 1 << 23; // child polled before and after a move / group change
    pub const LIMIT_REACHED: u64 = 1 << 24;
    pub const REFILL: u64 = 1 << 25; // adapter pulled again after a completion
    pub const UP_GAP: u64 = 1 << 26; // upstream answered Pending at least once
    pub const POLL_AFTER_UP_END: u64 = 1 << 27; // polled after upstream ended with futures in flight
    pub const REFUSED: u64 = 1 << 28;
    pub const REDUNDANT_WAKE: u64 = 1 << 29; // a child woken >= 2 times between two of its polls
    pub const UNPOLLED_SIBLING: u64 = 1 << 30; // a collection poll left some held child un-polled
    pub const POP_GT_BUDGET: u64 = 1 << 31; // more than 61 children held
    pub const VICTIM_OTHER_GROUP: u64 = 1 << 32; // dirty child waited while a child of another group was polled
    pub const SETTLED: u64 = 1 << 33; // a Settle probe ran with >= 2 held children
    pub const OBS_MID: u64 = 1 << 34; // size_hint observed mid-run with items to come
    pub const CYCLES3: u64 = 1 << 35; // >= 3 fill/drain cycles
    pub const JOIN_REPOLL: u64 = 1 << 36;
    pub const ERR_NOT_LAST: u64 = 1 << 37;
    pub const HEAD_STALL: u64 = 1 << 38; // ordered adapter: output parked behind a pending head with upstream left
    pub const TWO_SRC: u64 = 1 << 39; // >=2 sources with >=2 items and a gap
    pub const PUSH_RUNNING: u64 = 1 << 40; // source pushed after merge started yielding
    pub const DRAIN_EMPTY: u64 = 1 << 41;
    pub const IN_DROP_WAKE: u64 = 1 << 42; // waker traffic from inside a child's drop
    pub const UP_ERR: u64 = 1 << 43;
    pub const CAP1: u64 = 1 << 44;
    pub const REBASE_MIXED: u64 = 1 << 45; // re-base ran with parked and running entries
    pub const ACCEPT_AFTER_DONE: u64 = 1 << 46;
    pub const MANY_PROCESSED: u64 = 1 << 47;
    pub const UP_END_INFLIGHT: u64 = 1 << 48;
    pub const CHILD_PANIC: u64 = 1 << 49; // a child's poll panicked and the caller went on using the subject
}

pub struct World {
    pub children: Vec<Child>,
    pub toks: Vec<Tok>,
    pub nonce: u32,
    pub violations: Vec<Violation>,
    pub labels: u64,
    pub trace: bool,
    pub log: Vec<String>,

    // polls
    pub poll_seq: u64,
    /// collection polls that polled at least one child or returned Pending (C13 delay is counted in these:
    /// a poll that hands out a parked output or an upstream error without touching a child is progress
    /// of a different kind and says nothing about fairness)
    pub eff_polls: u64,
    pub in_poll: bool,
    pub subject_alive: bool,
    pub subject_dropping: bool,
    pub cur_waker: usize,
    pub last_waker: usize,
    pub last_poll_pending: bool,
    pub task_wakes: [u64; NW],
    pub task_wakes_at_start: [u64; NW],
    pub bracket: u32,
    pub frozen: bool,
    pub stop_infinite: bool,

    // counters
    pub child_polls: u64,
    pub child_polls_in_call: u64,
    pub events_in_call: u64,
    pub pushes_accepted: u64,
    pub eff_wakes: u64,
    pub unattributed: u64,
    pub rearms: u64,
    pub invocations: u64,
    pub stale_invocations_since_clean: u64,
    pub done_this_call: Vec<Cid>,
    pub completion_order: Vec<Cid>,
    pub first_err: Option<u32>,

    // adapters
    pub limit: usize,
    pub adapter: bool,
    pub ordered_adapter: bool,
    pub pulled: u64,
    pub delivered: u64,
    pub completed: u64,
    pub inflight: i64,
    pub up_polled_in_call: bool,
    pub up_last_pending_in_call: bool,
    pub up_ended: bool,
    pub up_errs_out: u64,

    // blocks
    pub blocks: Vec<Block>,
    pub hard_cap_hit: bool,
    pub max_groups: usize,
    pub max_cap: usize,
    /// ordered subjects: largest number of accepted-but-not-yet-yielded children seen so far
    /// (a poll may hand out a parked output without polling any child)
    pub max_owed: usize,
    pub up_plans: Vec<Plan>,
    /// ids of the children currently held (accepted, not finished, not dropped), oldest first; no upstream
    pub held: Vec<Cid>,
    /// children polled during the current call
    pub polled_list: Vec<Cid>,
    /// futures that finished but whose output has not come out yet
    pub parked: i64,
    /// ordered adapters: every future below this id has been yielded
    pub scan_from: usize,
    pub epoch: u32,
    /// a child panicked inside a poll: liveness is no longer demanded of the subject (safety still is)
    pub lenient: bool,
    /// every future handed to the subject is of a type without destructor
    pub untracked_futs: bool,
    pub untracked_srcs: bool,
    pub active: bool,
    /// 0 collection, 1 merge, 2 adapter, 3 join_all, 4 try_join_all
    pub class: u8,
}

impl World {
    pub fn new() -> Self {
        World {
            children: Vec::new(),
            toks: Vec::new(),
            nonce: 0x5EED_1234,
            violations: Vec::new(),
            labels: 0,
            trace: false,
            log: Vec::new(),
            poll_seq: 0,
            eff_polls: 0,
            in_poll: false,
            subject_alive: false,
            subject_dropping: false,
            cur_waker: 0,
            last_waker: usize::MAX,
            last_poll_pending: false,
            task_wakes: [0; NW],
            task_wakes_at_start: [0; NW],
            bracket: 0,
            frozen: false,
            stop_infinite: false,
            child_polls: 0,
            child_polls_in_call: 0,
            events_in_call: 0,
            pushes_accepted: 0,
            eff_wakes: 0,
            unattributed: 0,
            rearms: 0,
            invocations: 0,
            stale_invocations_since_clean: 0,
            done_this_call: Vec::new(),
            completion_order: Vec::new(),
            first_err: None,
            limit: 0,
            adapter: false,
            ordered_adapter: false,
            pulled: 0,
            delivered: 0,
            completed: 0,
            inflight: 0,
            up_polled_in_call: false,
            up_last_pending_in_call: false,
            up_ended: false,
            up_errs_out: 0,
            blocks: Vec::new(),
            hard_cap_hit: false,
            max_groups: 1,
            max_cap: 0,
            max_owed: 0,
            up_plans: Vec::new(),
            held: Vec::new(),
            polled_list: Vec::new(),
            parked: 0,
            scan_from: 0,
            epoch: 0,
            lenient: false,
            untracked_futs: false,
            untracked_srcs: false,
            active: false,
            class: 0,
        }
    }

    pub fn violate(&mut self, props: u32, sig: impl Into<String>, msg: impl Into<String>) {
        let sig = sig.into();
        if self.violations.len() < 64 {
            let msg = msg.into();
            if self.trace {
                self.log.push(format!("!! VIOLATION {sig}: {msg}"));
            }
            self.violations.push(Violation { props, sig, msg });
        }
    }

    #[inline]
    pub fn ev(&mut self, f: impl FnOnce() -> String) {
        if self.trace {
            let s = f();
            self.log.push(s);
        }
    }

    pub fn new_child(&mut self, role: Role, plan: &Plan) -> Cid {
        let id = self.children.len() as Cid;
        self.children.push(Child {
            role,
            life: Life::Fresh,
            dropped: 0,
            accepted: false,
            ready: plan.ready,
            self_wake: plan.self_wake,
            plan: plan.clone(),
            stash: Vec::new(),
            task_stash: None,
            slot: 0,
            addr: 0,
            polls: 0,
            dirty: false,
            dirty_wake: false,
            accept_seq: 0,
            dirty_since: 0,
            woke: false,
            pos: 0,
            last_pending: false,
            items_out: 0,
            next_seq_expected: 0,
            yielded: false,
            upstream_kind: 0,
            polled_in_call: false,
            pushed_seq: 0,
            epoch: 0,
            panic_left: plan.panic_polls,
            no_drop_glue: (self.untracked_futs && role == Role::Fut) || (self.untracked_srcs && role == Role::Source),
        });
        id
    }

    /// the subject accepted this child (push accepted, collected, or pulled from upstream)
    pub fn accept(&mut self, id: Cid) {
        let seq = self.poll_seq;
        let eff = self.eff_polls;
        let n = self.pushes_accepted;
        let c = &mut self.children[id as usize];
        c.accepted = true;
        c.dirty = true;
        c.accept_seq = seq;
        c.dirty_since = eff;
        c.pushed_seq = n;
        let up = c.role == Role::Upstream;
        self.pushes_accepted += 1;
        if !up {
            self.held.push(id);
        }
    }

    /// the child stopped being held (finished or dropped)
    pub fn unhold(&mut self, id: Cid) {
        if let Some(p) = self.held.iter().position(|&h| h == id) {
            self.held.remove(p);
        }
    }

    pub fn new_tok(&mut self, kind: TokKind, child: Cid, seq: u32) -> u32 {
        let t = self.toks.len() as u32;
        self.toks.push(Tok {
            kind,
            child,
            seq,
            dropped: 0,
            handed_out: false,
        });
        t
    }

    pub fn held_ids(&self) -> Vec<Cid> {
        self.held.clone()
    }
    pub fn held_count(&self) -> usize {
        self.held.len()
    }

    fn held_child_with_slot(&self, slot: usize) -> Option<Cid> {
        if slot == 0 {
            return None;
        }
        for &i in &self.held {
            if self.children[i as usize].slot == slot {
                return Some(i);
            }
        }
        None
    }

    /// book-keeping for one invocation (wake / wake_by_ref) of a child waker that was handed to `owner`
    pub fn note_invocation(&mut self, slot: usize, owner: Cid) {
        self.invocations += 1;
        if !self.subject_alive {
            self.labels |= lb::WAKE_AFTER_DROP;
            return;
        }
        let owner_held = self.children[owner as usize].held();
        if !owner_held {
            self.labels |= lb::STALE_WAKE;
            self.stale_invocations_since_clean += 1;
        }
        match self.held_child_with_slot(slot) {
            Some(t) => {
                let seq = self.eff_polls;
                let in_poll = self.in_poll;
                let lpp = self.last_poll_pending;
                let c = &mut self.children[t as usize];
                if !c.woke {
                    c.woke = true;
                    self.eff_wakes += 1;
                } else {
                    self.labels |= lb::REDUNDANT_WAKE;
                }
                if t == owner {
                    if !c.dirty {
                        c.dirty = true;
                        c.dirty_since = seq;
                    }
                    c.dirty_wake = true;
                    if in_poll {
                        self.labels |= lb::WAKE_DURING;
                    } else if lpp {
                        self.labels |= lb::WAKE_BETWEEN;
                    }
                } else {
                    self.labels |= lb::STALE_REUSED;
                }
            }
            None => {
                self.unattributed += 1;
            }
        }
    }

    pub fn task_woken_since_poll_start(&self, k: usize) -> bool {
        self.task_wakes[k] > self.task_wakes_at_start[k]
    }

    pub fn progress_stamp(&self) -> (u64, u64, u64, u64, u64, u64, u64) {
        let pos: u64 = self.children.iter().map(|c| c.pos as u64).sum();
        let polls: u64 = self.children.iter().map(|c| c.polls as u64).sum();
        (self.child_polls, self.delivered, self.completed, self.up_errs_out, self.pulled, pos, polls)
    }

    pub fn block_of(&self, addr: usize) -> Option<usize> {
        self.blocks
            .iter()
            .rposition(|b| addr >= b.base && addr < b.base + b.size)
    }
}

thread_local! {
    pub static WORLD: RefCell<World> = RefCell::new(World::new());
}

/// short exclusive access to the world. Never call a waker / drop a waker / call the subject inside.
#[inline]
pub fn w<R>(f: impl FnOnce(&mut World) -> R) -> R {
    WORLD.with(|c| f(&mut c.borrow_mut()))
}

pub fn reset_world(trace: bool) {
    // take the old world out first so that dropping stashed wakers does not run under a borrow
    let mut old = WORLD.with(|c| std::mem::replace(&mut *c.borrow_mut(), World::new()));
    // anything still stashed belongs to an aborted case whose subject was leaked: leak it too
    for c in old.children.iter_mut() {
        for wk in c.stash.drain(..) {
            std::mem::forget(wk);
        }
        if let Some(wk) = c.task_stash.take() {
            std::mem::forget(wk);
        }
    }
    drop(old);
    TW_LIVE.with(|c| c.set((c.get().0 + 1, 0)));
    w(|x| x.trace = trace);
}

// ------------------------------------------------------------------------------------------------
// task wakers

pub struct TaskW(pub usize, u64);

thread_local! {
    /// (case number, task-waker objects of that case still alive)
    static TW_LIVE: std::cell::Cell<(u64, i64)> = std::cell::Cell::new((0, 0));
}

impl TaskW {
    pub fn new(k: usize) -> Arc<TaskW> {
        let case = TW_LIVE.with(|c| {
            let (n, l) = c.get();
            c.set((n, l + 1));
            n
        });
        Arc::new(TaskW(k, case))
    }
}

impl Drop for TaskW {
    fn drop(&mut self) {
        let _ = TW_LIVE.try_with(|c| {
            let (n, l) = c.get();
            if n == self.1 {
                c.set((n, l - 1));
            }
        });
    }
}

/// task-waker objects created since the last `reset_world` that are still referenced by somebody
pub fn task_wakers_alive() -> i64 {
    TW_LIVE.with(|c| c.get().1)
}

impl Wake for TaskW {
    fn wake(self: Arc<Self>) {
        self.wake_by_ref()
    }
    fn wake_by_ref(self: &Arc<Self>) {
        let _cb = CbGuard::new();
        let k = self.0;
        w(|x| {
            x.task_wakes[k] += 1;
            x.ev(|| format!("    task waker {k} invoked"));
            if !x.in_poll && x.bracket == 0 {
                x.violate(
                    p(14),
                    "C14/unsolicited-task-wake",
                    format!("task waker {k} invoked outside any poll and outside any child-waker invocation"),
                );
            }
        });
    }
}

pub fn make_task_wakers() -> Vec<Waker> {
    (0..NW).map(|k| Waker::from(TaskW::new(k))).collect()
}

// ------------------------------------------------------------------------------------------------
// invoking child wakers (always bracketed)

#[derive(Clone, Copy, Debug, PartialEq, Eq)]
pub enum How {
    ByRef,
    CloneWake,
    CloneDrop,
    TakeWake,
    TakeDrop,
}

impl How {
    pub fn from_u8(x: u8) -> How {
        match x % 5 {
            0 => How::ByRef,
            1 => How::CloneWake,
            2 => How::CloneDrop,
            3 => How::TakeWake,
            _ => How::TakeDrop,
        }
    }
}

/// Use one stashed waker of child `owner` (index `which` in its stash) in the way `how` says.
/// Returns false if the child has no stashed waker.
pub fn use_stashed(owner: Cid, which: usize, how: How) -> bool {
    // obtain the waker (clone or take) without holding the borrow during vtable calls
    let n = w(|x| x.children[owner as usize].stash.len());
    if n == 0 {
        return false;
    }
    let idx = which % n;
    // a held child that gives away its last waker without being woken could never be woken again:
    // that would be a bug of the child, not of the collection
    let how = if how == How::TakeDrop && n == 1 && w(|x| x.children[owner as usize].held()) {
        How::CloneDrop
    } else {
        how
    };
    match how {
        How::ByRef | How::CloneWake | How::CloneDrop => {
            // temporarily take it out, act, put it back
            let wk = w(|x| x.children[owner as usize].stash.swap_remove(idx));
            let slot = wk.data() as usize;
            match how {
                How::ByRef => {
                    begin_invocation(slot, owner, "wake_by_ref");
                    vt(|| wk.wake_by_ref());
                    end_invocation();
                }
                How::CloneWake => {
                    let c = vt(|| wk.clone());
                    begin_invocation(slot, owner, "clone().wake()");
                    vt(|| c.wake());
                    end_invocation();
                }
                _ => {
                    w(|x| x.ev(|| format!("  clone+drop waker of child {owner}")));
                    let c = vt(|| wk.clone());
                    vt(|| drop(c));
                }
            }
            w(|x| x.children[owner as usize].stash.push(wk));
        }
        How::TakeWake => {
            let wk = w(|x| x.children[owner as usize].stash.swap_remove(idx));
            let slot = wk.data() as usize;
            begin_invocation(slot, owner, "wake()");
            vt(|| wk.wake());
            end_invocation();
        }
        How::TakeDrop => {
            let wk = w(|x| x.children[owner as usize].stash.swap_remove(idx));
            w(|x| x.ev(|| format!("  drop stashed waker of child {owner}")));
            vt(|| drop(wk));
        }
    }
    true
}

pub fn begin_invocation(slot: usize, owner: Cid, what: &str) {
    w(|x| {
        x.ev(|| format!("  invoke {what} on a waker of child {owner}"));
        x.bracket += 1;
        x.note_invocation(slot, owner);
    });
}
pub fn end_invocation() {
    w(|x| {
        x.bracket -= 1;
        // C01 (2): a wake of a held child after a Pending poll must have reached the waker of that poll
        x.check_wake_obligation("after-wake");
    });
}

impl World {
    /// C01 rules (1)/(2): if the most recent poll returned Pending and some held child is dirty,
    /// the task waker of that poll must have been invoked since that poll began.
    pub fn check_wake_obligation(&mut self, when: &str) {
        if !self.subject_alive || self.in_poll || !self.last_poll_pending {
            return;
        }
        let k = self.last_waker;
        if k >= NW || self.task_woken_since_poll_start(k) {
            return;
        }
        // the obligation covers children pushed before that poll began, or woken since their own last poll
        let pseq = self.poll_seq;
        let dirty: Vec<Cid> = self
            .held
            .iter()
            .copied()
            .filter(|&i| {
                let c = &self.children[i as usize];
                c.dirty && (c.dirty_wake || c.accept_seq < pseq)
            })
            .collect();
        if let Some(&d) = dirty.first() {
            let budget = self.child_polls_in_call >= BUDGET;
            let props = if budget { p(1) | p(13) } else { p(1) };
            let other = (0..NW).filter(|&j| j != k && self.task_wakes[j] > self.task_wakes_at_start[j]).count();
            let sig = if other > 0 {
                format!("C01/lost-wake/{when}/wrong-task-waker")
            } else if self.children[d as usize].polls == 0 {
                format!("C01/lost-wake/{when}/never-polled")
            } else {
                format!("C01/lost-wake/{when}")
            };
            self.violate(
                props,
                sig,
                format!(
                    "poll #{} (task waker {k}) returned Pending, child {d} (and {} more) is pushed/woken but un-polled, and task waker {k} was not invoked since that poll began",
                    self.poll_seq,
                    dirty.len() - 1
                ),
            );
        }
    }
}

/// resolve a 16-bit selector monotonically onto a list
pub fn pick<T: Copy>(list: &[T], sel: u16) -> Option<T> {
    if list.is_empty() {
        None
    } else {
        let i = (sel as usize * list.len()) >> 16;
        Some(list[i.min(list.len() - 1)])
    }
}

/// run an action of a child's on_poll / on_drop list
pub fn run_action(a: Action) {
    match a {
        Action::WakeRef(s) | Action::WakeVal(s) | Action::CloneStash(s) | Action::DropStash(s) => {
            let cands: Vec<Cid> = w(|x| {
                (0..x.children.len() as Cid)
                    .filter(|&i| !x.children[i as usize].stash.is_empty())
                    .collect()
            });
            if let Some(t) = pick(&cands, s) {
                match a {
                    Action::WakeRef(_) => {
                        use_stashed(t, 0, How::ByRef);
                    }
                    Action::WakeVal(_) => {
                        use_stashed(t, 0, How::CloneWake);
                    }
                    Action::CloneStash(_) => {
                        if let Some(wk) = clone_stashed(t) {
                            let back = w(|x| {
                                if x.children[t as usize].stash.len() < 6 {
                                    x.children[t as usize].stash.push(wk);
                                    None
                                } else {
                                    Some(wk)
                                }
                            });
                            vt(|| drop(back));
                        }
                    }
                    _ => {
                        use_stashed(t, 0, How::TakeDrop);
                    }
                }
            }
        }
        Action::Complete(s) => {
            let cands: Vec<Cid> = w(|x| x.held_ids());
            if let Some(t) = pick(&cands, s) {
                w(|x| x.children[t as usize].ready = true);
                use_stashed(t, 0, How::ByRef);
            }
        }
    }
}

/// clone the first stashed waker of `t` without holding the world borrow during the vtable call
pub fn clone_stashed(t: Cid) -> Option<Waker> {
    let n = w(|x| x.children[t as usize].stash.len());
    if n == 0 {
        return None;
    }
    let wk = w(|x| x.children[t as usize].stash.swap_remove(0));
    let c = vt(|| wk.clone());
    w(|x| x.children[t as usize].stash.push(wk));
    Some(c)
}
