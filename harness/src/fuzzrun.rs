//! shared body of the fuzz targets (engine E3)

use crate::decode::{decode_case, Family};
use crate::engine::{load_known, verif_dir, Known};
use crate::interp::{install_hooks, run_case};
use std::sync::OnceLock;

struct Ctx {
    /// bit mask of properties whose violation is fatal
    fatal: u32,
    known: Vec<Known>,
}

static CTX: OnceLock<Ctx> = OnceLock::new();

fn ctx() -> &'static Ctx {
    CTX.get_or_init(|| {
        // libfuzzer-sys aborts on every panic, also on the ones this harness catches on purpose
        // (documented "push into a full ..." panics, controlled stops): replace its hook. A panic that
        // is not caught still ends the process through libfuzzer-sys' catch_unwind wrapper.
        std::panic::set_hook(Box::new(|_| {}));
        install_hooks();
        let fatal = match std::env::var("VERIF_PROP") {
            Ok(p) => {
                let n: u32 = p.trim_start_matches('C').parse().unwrap_or(0);
                if (1..=18).contains(&n) {
                    1 << n
                } else {
                    0x7FFFE
                }
            }
            Err(_) => 0x7FFFE,
        };
        Ctx {
            fatal,
            known: load_known(),
        }
    })
}

pub fn run(data: &[u8], fam: Family) {
    let c = ctx();
    let case = decode_case(data, fam);
    // no counting allocator in this build (ASan owns the heap): C18 is not evaluated here
    let r = run_case(&case, false, false);
    for v in &r.violations {
        if v.props & c.fatal == 0 || v.props & (1 << 18) != 0 && v.props.count_ones() == 1 {
            continue;
        }
        let known = c.known.iter().any(|k| k.status == "known" && k.signature == v.sig);
        if known {
            continue;
        }
        let pid = (1..=18).find(|n| v.props & c.fatal & (1 << n) != 0).unwrap_or(0);
        let dir = verif_dir();
        let path = format!("{dir}/replays/C{pid:02}-E3-{:016x}.json", case.digest());
        let _ = std::fs::create_dir_all(format!("{dir}/replays"));
        let doc = serde_json::json!({"property": format!("C{pid:02}"), "engine": "E1", "found_by": "E3-fuzz",
            "signature": v.sig, "message": v.msg, "case": case});
        let _ = std::fs::write(&path, serde_json::to_string_pretty(&doc).unwrap());
        eprintln!("VIOLATION property=C{pid:02} replay={path}\n  [{}] {}", v.sig, v.msg);
        std::process::abort();
    }
}
