//! shared body of the fuzz targets (engine E3)

use crate::decode::{decode_case, Family};
use crate::engine::{load_known, verif_dir, Known};
use crate::interp::{install_hooks, run_case};
use std::sync::OnceLock;

struct Ctx {
    /// bit mask of properties whose violation is fatal
    fatal: u32,
    /// the single property under check (0 = any)
    prop: u32,
    known: Vec<Known>,
    summary: Option<String>,
    stats: std::sync::Mutex<(u64, std::collections::HashSet<u64>, u64)>,
}

static CTX: OnceLock<Ctx> = OnceLock::new();

fn ctx() -> &'static Ctx {
    CTX.get_or_init(|| {
        // libfuzzer-sys aborts on every panic, also on the ones this harness catches on purpose
        // (documented "push into a full ..." panics, controlled stops): replace its hook. A panic that
        // is not caught still ends the process through libfuzzer-sys' catch_unwind wrapper.
        std::panic::set_hook(Box::new(|_| {}));
        install_hooks();
        let fatal: u32 = match std::env::var("VERIF_PROP") {
            Ok(p) => {
                let n: u32 = p.trim_start_matches('C').parse().unwrap_or(0);
                if (1..=18).contains(&n) {
                    1 << n
                } else {
                    0x7FFFE
                }
            }
            Err(_) => 0x7FFFE,
        };
        let prop = if fatal.count_ones() == 1 { fatal.trailing_zeros() } else { 0 };
        Ctx {
            fatal,
            prop,
            known: load_known(),
            summary: std::env::var("VERIF_FUZZ_SUMMARY").ok(),
            stats: std::sync::Mutex::new((0, std::collections::HashSet::new(), 0)),
        }
    })
}

pub fn run(data: &[u8], fam: Family) {
    let c = ctx();
    let case = decode_case(data, fam);
    // no counting allocator in this build (ASan owns the heap): C18 is not evaluated here
    let r = run_case(&case, false, false, c.fatal);
    if let Some(path) = &c.summary {
        let mut st = c.stats.lock().unwrap();
        st.0 += 1;
        st.2 += r.stats.polls;
        if c.prop != 0 && crate::engine::nontrivial(c.prop, &case, &r) {
            st.1.insert(case.digest());
        }
        if st.0 % 2048 == 0 {
            let doc = serde_json::json!({"engine": "E3-fuzz", "executions": st.0, "distinct_nontrivial": st.1.len(), "polls": st.2,
                "family": format!("{fam:?}"), "sample": crate::engine::sample_json(&case, &r)});
            let _ = std::fs::write(path, doc.to_string());
        }
    }
    for v in &r.violations {
        if v.props & c.fatal == 0 || v.props & (1 << 18) != 0 && v.props.count_ones() == 1 {
            continue;
        }
        let known = c.known.iter().any(|k| k.status == "known" && k.signature == v.sig);
        if known {
            continue;
        }
        let pid = (1..=18).find(|n| v.props & c.fatal & (1 << n) != 0).unwrap_or(0);
        let dir = verif_dir();
        let path = format!("{dir}/replays/C{pid:02}-E3-{:016x}.json", case.digest());
        let _ = std::fs::create_dir_all(format!("{dir}/replays"));
        let doc = serde_json::json!({"property": format!("C{pid:02}"), "engine": "E1", "found_by": "E3-fuzz",
            "signature": v.sig, "message": v.msg, "case": case});
        let _ = std::fs::write(&path, serde_json::to_string_pretty(&doc).unwrap());
        eprintln!("VIOLATION property=C{pid:02} replay={path}\n  [{}] {}", v.sig, v.msg);
        std::process::abort();
    }
}
