//! Byte-level decoder for the coverage-guided fuzz targets (engine E3): turns raw fuzzer input into
//! the same `Case` the proptest generators produce, so the same interpreter and oracles run.

use crate::ops::*;
use crate::subject::*;
use crate::world::*;
use arbitrary::Unstructured;

#[derive(Clone, Copy, Debug, PartialEq, Eq)]
pub enum Family {
    Collections,
    Merges,
    Adapters,
    Joins,
    Any,
}

fn b(u: &mut Unstructured) -> u8 {
    u.arbitrary::<u8>().unwrap_or(0)
}
fn sel(u: &mut Unstructured) -> u16 {
    match b(u) % 4 {
        0 => 0,
        1 => u16::MAX,
        _ => u.arbitrary::<u16>().unwrap_or(0),
    }
}

fn action(u: &mut Unstructured) -> Option<Action> {
    let x = b(u);
    if x < 200 {
        return None;
    }
    let s = sel(u);
    Some(match x % 5 {
        0 => Action::WakeRef(s),
        1 => Action::WakeVal(s),
        2 => Action::CloneStash(s),
        3 => Action::DropStash(s),
        _ => Action::Complete(s),
    })
}

fn plan(u: &mut Unstructured, source: bool, can_fail: bool) -> Plan {
    let f = b(u);
    let mut script = Vec::new();
    let mut infinite = false;
    if source {
        let n = b(u) % 8;
        for _ in 0..n {
            script.push(match b(u) % 5 {
                0 | 1 | 2 => SStep::Item,
                3 => SStep::Pend(true),
                _ => SStep::Pend(false),
            });
        }
        infinite = b(u) % 16 == 0;
    }
    Plan {
        ready: f & 1 != 0,
        fail: can_fail && f & 2 != 0 && f & 4 != 0,
        self_wake: match (f >> 3) % 8 {
            0..=4 => 0,
            5 => 1,
            6 => 3,
            _ => 255,
        },
        stash: if f & 64 != 0 { 2 } else { 1 },
        wake_on_complete: f & 128 != 0,
        on_poll: action(u),
        on_drop: action(u),
        script,
        infinite,
        panic_polls: 0,
    }
}

fn cap(u: &mut Unstructured) -> usize {
    let x = b(u);
    match x % 16 {
        0 => 0,
        1 | 2 => 1,
        3 | 4 => 2,
        5..=9 => 3 + (x as usize >> 4) % 6,
        10 => 61,
        11 => 62,
        12 => 63,
        13 => 32 + (x as usize >> 4),
        14 => 64 + (x as usize >> 4) * 4,
        _ => 9 + (x as usize >> 4) * 3,
    }
}

fn start_index(u: &mut Unstructured) -> u64 {
    const MSB: u64 = 1 << 63;
    let x = b(u);
    let k = (b(u) % 40) as u64;
    match x % 8 {
        0 | 1 => 0,
        2 => k,
        3 => MSB - k,
        4 => MSB + k,
        5 => u64::MAX - k,
        6 => MSB / 2 + k,
        _ => u.arbitrary::<u64>().unwrap_or(0),
    }
}

pub fn decode_case(data: &[u8], fam: Family) -> Case {
    let mut u = Unstructured::new(data);
    let u = &mut u;
    let sb = b(u);
    let subj = match fam {
        Family::Collections => [Subj::UB, Subj::UU, Subj::OB, Subj::OU][sb as usize % 4],
        Family::Merges => [Subj::MB, Subj::MU][sb as usize % 2],
        Family::Adapters => [Subj::BU, Subj::BO, Subj::TBU, Subj::TBO, Subj::FE][sb as usize % 5],
        Family::Joins => [Subj::JA, Subj::TJA][sb as usize % 2],
        Family::Any => Subj::ALL[sb as usize % 13],
    };
    let mut cfg = Cfg::default();
    let can_fail = subj.is_try();
    match subj {
        Subj::UB | Subj::OB => {
            cfg.cap = cap(u);
            if b(u) % 5 == 0 {
                cfg.ctor = 2;
                let n = b(u) % 12;
                for _ in 0..n {
                    cfg.initial.push(plan(u, false, false));
                }
            } else if subj == Subj::OB {
                cfg.start_index = start_index(u);
            }
        }
        Subj::UU | Subj::OU => {
            cfg.ctor = b(u) % 3;
            cfg.cap = [0usize, 1, 1, 2, 3, 5, 1, 2][b(u) as usize % 8];
            if cfg.ctor == 2 {
                let n = b(u) % 40;
                for _ in 0..n {
                    cfg.initial.push(plan(u, false, false));
                }
            } else if subj == Subj::OU {
                cfg.start_index = start_index(u);
            }
        }
        Subj::MB | Subj::MU => {
            cfg.ctor = if subj == Subj::MB { 2 } else { [0u8, 2, 2][b(u) as usize % 3] };
            if cfg.ctor == 2 {
                let n = b(u) % 40;
                for _ in 0..n {
                    cfg.initial.push(plan(u, true, false));
                }
            }
            cfg.cap = cfg.initial.len();
        }
        Subj::BU | Subj::BO | Subj::TBU | Subj::TBO | Subj::FE => {
            let x = b(u);
            cfg.cap = if subj == Subj::FE && x % 8 == 0 { 0 } else { 1 + (x as usize % 6) + if x & 128 != 0 { (x as usize >> 3) % 12 } else { 0 } };
            let n = b(u) % 48;
            for _ in 0..n {
                let st = match b(u) % 10 {
                    0 => SStep::Pend(true),
                    1 => SStep::Pend(false),
                    2 if can_fail => SStep::Err,
                    _ => SStep::Item,
                };
                if st == SStep::Item {
                    cfg.up_plans.push(plan(u, false, can_fail));
                }
                cfg.upstream.push(st);
            }
            cfg.up_hint = b(u) % 5;
            cfg.up_infinite = subj != Subj::FE && b(u) % 24 == 0;
        }
        Subj::JA | Subj::TJA => {
            cfg.ctor = [2u8, 2, 3, 4][b(u) as usize % 4];
            cfg.inexact_iter = b(u) % 4 == 0;
            let n = b(u) % 24;
            for _ in 0..n {
                let mut p = plan(u, false, can_fail);
                if b(u) % 12 == 0 {
                    p.panic_polls = 1 + b(u) % 2;
                }
                cfg.initial.push(p);
            }
        }
    }
    if subj.is_merge() {
        cfg.child_kind = b(u) % 2;
    }
    if subj.is_collection() {
        cfg.child_kind = [0u8, 0, 0, 1, 2][b(u) as usize % 5];
        cfg.inexact_iter = b(u) % 4 == 0;
        if cfg.inexact_iter {
            cfg.iter_short = [0u16, 0, 1, 2, 3, 40][b(u) as usize % 6];
        }
    }
    let repolls = b(u) % 4;
    let merge = subj.is_merge();
    let mut ops = Vec::new();
    while !u.is_empty() && ops.len() < 64 {
        let o = b(u);
        let op = match o % 32 {
            0 | 1 | 2 => Op::Push(plan(u, merge, false)),
            3 => Op::PushFront(plan(u, merge, false)),
            4 | 5 => Op::TryPush(plan(u, merge, false)),
            6 => Op::TryPushFront(plan(u, merge, false)),
            7 => {
                let k = b(u);
                Op::PushMany(if k & 128 != 0 { (k & 127) % 70 } else { k % 12 }, plan(u, merge, false))
            }
            8..=11 => Op::Poll(b(u) % 6),
            12 => Op::PollMany(b(u) % 3, b(u) % 16),
            13 | 14 => Op::Exec(b(u) % 6, b(u) % 24),
            15 => Op::SetReady(sel(u)),
            16..=18 => Op::Complete(sel(u)),
            19 => Op::CompleteMany(sel(u), b(u) % 64),
            20 => Op::CompleteAllBut(sel(u)),
            21 | 22 => Op::Wake(sel(u), b(u) % 5),
            23 | 24 => Op::WakeStale(sel(u), b(u) % 5),
            25 => Op::UpWake,
            26 => Op::Move,
            27 => Op::Settle,
            28 => {
                if b(u) % 4 == 0 {
                    Op::DropSubject
                } else {
                    Op::Poll(0)
                }
            }
            29 => Op::DropStaleWakers,
            30 => Op::Refill(b(u) as u16 % 40, plan(u, merge, false)),
            _ => {
                if b(u) % 2 == 0 {
                    Op::Extend(b(u) % 12, plan(u, merge, false))
                } else {
                    Op::Exec(0, 8)
                }
            }
        };
        ops.push(op);
    }
    Case {
        subj,
        cfg,
        ops,
        repolls,
    }
}
