//! vsched - engine E2: generated scenarios x generated thread schedules (shuttle) on the real crate.
//!
//! The crate's own atomics/lock in waker_list.rs yield to shuttle through hook H1
//! (`futures_buffered::verif::set_sched`), cordyceps' MPSC queue and diatomic-waker through their
//! loom cfgs and /verif/shim-loom. Every execution is one (scenario, schedule seed) pair and can be
//! replayed exactly.
//!
//!   vsched run <C01|C03> <quick|thorough> [--scenarios N] [--schedules N] [--out file.json]
//!   vsched replay <file>

use futures_buffered::verif::{Point, Probe, VtableFn};
use futures_buffered::*;
use futures_core::Stream;
use proptest::prelude::*;
use proptest::test_runner::{Config as PtConfig, RngAlgorithm, RngSeed, TestCaseError, TestError, TestRunner};
use serde::{Deserialize, Serialize};
use serde_json::{json, Value};
use shuttle::scheduler::{PctScheduler, RandomScheduler};
use shuttle::{Config, MaxSteps, Runner};
use std::cell::RefCell;
use std::collections::{BTreeMap, HashSet};
use std::future::Future;
use std::panic::{catch_unwind, AssertUnwindSafe};
use std::pin::Pin;
use std::sync::atomic::{AtomicBool, AtomicU32, AtomicUsize, Ordering};
use std::sync::{Arc, Mutex};
use std::task::{Context, Poll, Wake, Waker};

// ------------------------------------------------------------------------------------------------
// once an execution has recorded a violation the crate's memory management cannot be trusted any more
// (a block may be freed while referenced): from then on nothing is really deallocated on this thread, so
// that the rest of the execution and its teardown cannot corrupt the heap of the checker itself

struct LeakOnPoison;
thread_local! {
    static POISONED: std::cell::Cell<bool> = const { std::cell::Cell::new(false) };
}
unsafe impl std::alloc::GlobalAlloc for LeakOnPoison {
    unsafe fn alloc(&self, l: std::alloc::Layout) -> *mut u8 {
        unsafe { std::alloc::System.alloc(l) }
    }
    unsafe fn dealloc(&self, p: *mut u8, l: std::alloc::Layout) {
        if POISONED.try_with(|c| c.get()).unwrap_or(false) {
            return;
        }
        unsafe { std::alloc::System.dealloc(p, l) }
    }
}
#[global_allocator]
static GLOBAL: LeakOnPoison = LeakOnPoison;

// ------------------------------------------------------------------------------------------------
// scenario

#[derive(Clone, Copy, Debug, PartialEq, Eq, Serialize, Deserialize)]
enum Subj {
    UB,
    UU,
    OB,
    OU,
    MB,
    MU,
    JA,
    /// buffered_unordered(n) over an upstream that hands out all n futures at once
    BU,
}

#[derive(Clone, Copy, Debug, PartialEq, Eq, Serialize, Deserialize)]
enum WOp {
    /// make child c ready (sources: one more item) and wake it; how: 0 by_ref, 1 clone.wake(), 2 take.wake()
    Complete(u8, u8),
    /// wake child c without making it ready (spurious)
    Wake(u8, u8),
    /// clone a stashed waker of c and drop the clone
    CloneDrop(u8),
    /// clone a stashed waker of c and keep it (grows the stash)
    CloneKeep(u8),
    /// drop one stashed waker of c (never the last one of a child that still has to be completed)
    DropOne(u8),
    /// end source c (merges): it answers None at its next poll; futures: same as Complete
    End(u8, u8),
    Yield,
}

#[derive(Clone, Copy, Debug, PartialEq, Eq, Serialize, Deserialize)]
enum POp {
    /// one poll with task waker k (0/1)
    Poll(u8),
    Yield,
    /// push one more child (collections with room only)
    Push,
}

#[derive(Clone, Debug, PartialEq, Eq, Serialize, Deserialize)]
struct Scenario {
    subj: Subj,
    n: u8,
    extra_cap: u8,
    threads: Vec<Vec<WOp>>,
    poller: Vec<POp>,
    /// drop the collection when the poller script is done, while waker threads may still run
    drop_early: bool,
    /// scheduler: 0 random, d>0 PCT with depth d
    pct_depth: u8,
}

fn digest(s: &Scenario, sched: u64) -> u64 {
    let v = serde_json::to_vec(s).unwrap_or_default();
    let mut h: u64 = 0xcbf29ce484222325 ^ sched;
    for b in v {
        h ^= b as u64;
        h = h.wrapping_mul(0x100000001b3);
    }
    h
}

// ------------------------------------------------------------------------------------------------
// per-OS-thread state (shuttle runs all threads of an execution as coroutines on the calling thread)

#[derive(Default)]
struct Block {
    base: usize,
    size: usize,
    live_clones: i64,
    list_alive: bool,
    released: bool,
}

#[derive(Default)]
struct Ledger {
    active: bool,
    blocks: Vec<Block>,
    violations: Vec<(u32, String, String)>,
    switches_in_crate: u64,
    preemptions_in_crate: u64,
    vt_calls_offthread: u64,
    /// a bounded subject owns exactly one block for its whole life: while this is set no release is legal
    bounded_coll_alive: bool,
    /// unbounded subjects: blocks of the groups the collection holds right now (refreshed after every call)
    live_groups: Vec<usize>,
    /// the polling thread is inside a call into the collection (groups may legitimately be discarded)
    in_coll_call: bool,
}

thread_local! {
    static LEDGER: RefCell<Ledger> = RefCell::new(Ledger::default());
    static IN_EXEC: std::cell::Cell<bool> = const { std::cell::Cell::new(false) };
    /// id of the shuttle thread that currently runs (0 = poller), maintained by the harness
    static CUR: std::cell::Cell<usize> = const { std::cell::Cell::new(0) };
}

fn violate(prop: u32, sig: &str, msg: String) {
    POISONED.with(|c| c.set(true));
    LEDGER.with(|l| {
        let mut l = l.borrow_mut();
        if l.violations.len() < 16 {
            l.violations.push((prop, sig.to_string(), msg));
        }
    });
}

fn sched_cb(p: Point) {
    if !IN_EXEC.with(|c| c.get()) {
        return;
    }
    let before = shuttle::current::context_switches();
    match p {
        Point::Spin => shuttle::thread::yield_now(),
        _ => shuttle_engine::runtime::thread::continuation::switch(),
    }
    // did the scheduler really run another thread while this one was inside the crate?
    let preempted = shuttle::current::context_switches() > before + 0 && shuttle::current::context_switches() - before > 1;
    LEDGER.with(|l| {
        let mut l = l.borrow_mut();
        l.switches_in_crate += 1;
        if preempted {
            l.preemptions_in_crate += 1;
        }
    });
}

fn probe_cb(p: Probe) {
    if !IN_EXEC.with(|c| c.get()) {
        return;
    }
    let stop = LEDGER.with(|l| {
        let mut l = l.borrow_mut();
        if !l.active {
            return false;
        }
        match p {
            Probe::BlockAlloc { base, size, .. } => {
                l.blocks.push(Block {
                    base,
                    size,
                    live_clones: 0,
                    list_alive: true,
                    released: false,
                });
                false
            }
            Probe::ListDrop { base } => match l.blocks.iter().rposition(|b| b.base == base && !b.released) {
                Some(i) => {
                    l.blocks[i].list_alive = false;
                    false
                }
                None => {
                    l.violations.push((3, "C03/use-after-release".into(), format!("WakerList of released/unknown block {base:#x} dropped")));
                    true
                }
            },
            Probe::BlockRelease { base } => match l.blocks.iter().rposition(|b| b.base == base) {
                Some(i) => {
                    if l.blocks[i].released {
                        l.violations.push((3, "C03/double-release".into(), format!("block {base:#x} released twice")));
                        true
                    } else if !l.in_coll_call && l.live_groups.contains(&base) {
                        l.violations.push((
                            3,
                            "C03/released-while-group-alive".into(),
                            format!("block {base:#x} released while the collection still holds its group and is not being polled or dropped"),
                        ));
                        true
                    } else if l.bounded_coll_alive {
                        l.violations.push((
                            3,
                            "C03/released-while-collection-alive".into(),
                            format!("block {base:#x} released while the bounded collection that owns it is still alive"),
                        ));
                        true
                    } else if l.blocks[i].live_clones != 0 || l.blocks[i].list_alive {
                        let lc = l.blocks[i].live_clones;
                        let la = l.blocks[i].list_alive;
                        l.violations.push((
                            3,
                            "C03/released-while-referenced".into(),
                            format!("block {base:#x} released while {lc} waker clones are outstanding and its collection/group holds its reference = {la}"),
                        ));
                        true
                    } else {
                        l.blocks[i].released = true;
                        false
                    }
                }
                None => {
                    l.violations.push((3, "C03/release-of-unknown-block".into(), format!("{base:#x}")));
                    true
                }
            },
            Probe::Vtable { kind, slot } => {
                let i = l.blocks.iter().rposition(|b| slot >= b.base && slot < b.base + b.size);
                match i {
                    Some(i) if !l.blocks[i].released => {
                        match kind {
                            VtableFn::Clone => l.blocks[i].live_clones += 1,
                            VtableFn::Drop => l.blocks[i].live_clones -= 1,
                            _ => {}
                        }
                        if CUR.with(|c| c.get()) != 0 {
                            l.vt_calls_offthread += 1;
                        }
                        false
                    }
                    _ => {
                        l.violations.push((
                            3,
                            "C03/use-after-release".into(),
                            format!("waker vtable {kind:?} entered with slot {slot:#x} whose block is released or unknown"),
                        ));
                        true
                    }
                }
            }
        }
    });
    if stop {
        POISONED.with(|c| c.set(true));
        if !std::thread::panicking() {
            panic!("VERIF_STOP");
        }
    }
}

// ------------------------------------------------------------------------------------------------
// scripted children (thread-safe)

struct Shared {
    n: usize,
    ready: Vec<AtomicU32>,        // futures: >0 = resolves at next poll; sources: items available
    ended: Vec<AtomicBool>,       // sources: answer None once nothing is available
    poll_started: Vec<AtomicU32>, // child polls begun
    done: Vec<AtomicBool>,        // future returned Ready / source returned None
    dropped: Vec<AtomicU32>,
    stash: Vec<Mutex<Vec<Waker>>>,
    produced: Vec<AtomicU32>, // sources: items handed out
    task_wakes: [AtomicU32; 2],
    tw_live: std::sync::atomic::AtomicIsize,
    /// child-waker invocations issued by the waker threads (counted before the call)
    wake_calls: AtomicU32,
    /// per child: invocations of its waker that began and ended while it was not finished
    live_wakes: Vec<AtomicU32>,
    /// invocations that may have landed on a vacated / re-used slot (target finished before or during the call)
    stale_wakes: AtomicU32,
    threads_done: AtomicUsize,
    polled_after_done: AtomicBool,
}

impl Drop for Shared {
    fn drop(&mut self) {
        // after a violation the reference count of the waker block cannot be trusted: do not run any more
        // crate code on it (the crate aborts the process on a count it considers impossible)
        if POISONED.try_with(|c| c.get()).unwrap_or(false) {
            for m in self.stash.iter_mut() {
                if let Ok(v) = m.get_mut() {
                    for w in v.drain(..) {
                        std::mem::forget(w);
                    }
                }
            }
        }
    }
}

impl Shared {
    fn new(n: usize) -> Shared {
        Shared {
            n,
            ready: (0..n).map(|_| AtomicU32::new(0)).collect(),
            ended: (0..n).map(|_| AtomicBool::new(false)).collect(),
            poll_started: (0..n).map(|_| AtomicU32::new(0)).collect(),
            done: (0..n).map(|_| AtomicBool::new(false)).collect(),
            dropped: (0..n).map(|_| AtomicU32::new(0)).collect(),
            stash: (0..n).map(|_| Mutex::new(Vec::new())).collect(),
            produced: (0..n).map(|_| AtomicU32::new(0)).collect(),
            task_wakes: [AtomicU32::new(0), AtomicU32::new(0)],
            tw_live: std::sync::atomic::AtomicIsize::new(0),
            wake_calls: AtomicU32::new(0),
            live_wakes: (0..n).map(|_| AtomicU32::new(0)).collect(),
            stale_wakes: AtomicU32::new(0),
            threads_done: AtomicUsize::new(0),
            polled_after_done: AtomicBool::new(false),
        }
    }
    fn stash_waker(&self, id: usize, w: &Waker) {
        let c = w.clone();
        let old = {
            let mut g = self.stash[id].lock().unwrap();
            g.push(c);
            if g.len() > 3 {
                Some(g.remove(0))
            } else {
                None
            }
        };
        drop(old);
    }
}

struct SFut {
    id: usize,
    sh: Arc<Shared>,
}
impl Future for SFut {
    type Output = usize;
    fn poll(self: Pin<&mut Self>, cx: &mut Context<'_>) -> Poll<usize> {
        let id = self.id;
        let sh = &self.sh;
        sh.poll_started[id].fetch_add(1, Ordering::SeqCst);
        if sh.done[id].load(Ordering::SeqCst) {
            sh.polled_after_done.store(true, Ordering::SeqCst);
            return Poll::Pending;
        }
        // register first, then look: the standard protocol of a leaf future
        sh.stash_waker(id, cx.waker());
        if sh.ready[id].load(Ordering::SeqCst) > 0 {
            sh.done[id].store(true, Ordering::SeqCst);
            Poll::Ready(id)
        } else {
            Poll::Pending
        }
    }
}
impl Drop for SFut {
    fn drop(&mut self) {
        self.sh.dropped[self.id].fetch_add(1, Ordering::SeqCst);
    }
}

struct SSrc {
    id: usize,
    sh: Arc<Shared>,
}
impl Stream for SSrc {
    type Item = (usize, u32);
    fn poll_next(self: Pin<&mut Self>, cx: &mut Context<'_>) -> Poll<Option<(usize, u32)>> {
        let id = self.id;
        let sh = &self.sh;
        sh.poll_started[id].fetch_add(1, Ordering::SeqCst);
        if sh.done[id].load(Ordering::SeqCst) {
            sh.polled_after_done.store(true, Ordering::SeqCst);
            return Poll::Ready(None);
        }
        sh.stash_waker(id, cx.waker());
        let avail = sh.ready[id].load(Ordering::SeqCst);
        let out = sh.produced[id].load(Ordering::SeqCst);
        if out < avail {
            sh.produced[id].store(out + 1, Ordering::SeqCst);
            Poll::Ready(Some((id, out)))
        } else if sh.ended[id].load(Ordering::SeqCst) {
            sh.done[id].store(true, Ordering::SeqCst);
            Poll::Ready(None)
        } else {
            Poll::Pending
        }
    }
}
impl Drop for SSrc {
    fn drop(&mut self) {
        self.sh.dropped[self.id].fetch_add(1, Ordering::SeqCst);
    }
}

struct TaskW {
    k: usize,
    sh: Arc<Shared>,
}
impl TaskW {
    fn new(k: usize, sh: &Arc<Shared>) -> Arc<TaskW> {
        sh.tw_live.fetch_add(1, Ordering::SeqCst);
        Arc::new(TaskW { k, sh: sh.clone() })
    }
}
impl Drop for TaskW {
    fn drop(&mut self) {
        self.sh.tw_live.fetch_sub(1, Ordering::SeqCst);
    }
}
impl Wake for TaskW {
    fn wake(self: Arc<Self>) {
        self.sh.task_wakes[self.k].fetch_add(1, Ordering::SeqCst);
    }
    fn wake_by_ref(self: &Arc<Self>) {
        self.sh.task_wakes[self.k].fetch_add(1, Ordering::SeqCst);
    }
}

struct UpIter {
    next: usize,
    n: usize,
    sh: Arc<Shared>,
}
impl Stream for UpIter {
    type Item = SFut;
    fn poll_next(mut self: Pin<&mut Self>, _cx: &mut Context<'_>) -> Poll<Option<SFut>> {
        if self.next < self.n {
            let i = self.next;
            self.next += 1;
            Poll::Ready(Some(SFut { id: i, sh: self.sh.clone() }))
        } else {
            Poll::Ready(None)
        }
    }
}

enum Coll {
    BU(Pin<Box<BufferUnordered<UpIter>>>),
    UB(FuturesUnorderedBounded<SFut>),
    UU(FuturesUnordered<SFut>),
    OB(FuturesOrderedBounded<SFut>),
    OU(FuturesOrdered<SFut>),
    MB(MergeBounded<SSrc>),
    MU(MergeUnbounded<SSrc>),
    JA(JoinAll<SFut>),
}

enum Got {
    Pending,
    Done,
    Fut(usize),
    Item(usize, u32),
    Vec(Vec<usize>),
}

impl Coll {
    fn group_blocks(&self) -> Vec<usize> {
        match self {
            Coll::UU(c) => c.verif_groups().into_iter().map(|g| g.2).collect(),
            Coll::OU(c) => c.verif_groups().into_iter().map(|g| g.2).collect(),
            Coll::MU(c) => c.verif_groups().into_iter().map(|g| g.2).collect(),
            _ => Vec::new(),
        }
    }
    fn poll(&mut self, cx: &mut Context<'_>) -> Got {
        LEDGER.with(|l| l.borrow_mut().in_coll_call = true);
        let g = self.poll_inner(cx);
        let blocks = self.group_blocks();
        LEDGER.with(|l| {
            let mut l = l.borrow_mut();
            l.in_coll_call = false;
            l.live_groups = blocks;
        });
        g
    }
    fn poll_inner(&mut self, cx: &mut Context<'_>) -> Got {
        fn f(p: Poll<Option<usize>>) -> Got {
            match p {
                Poll::Pending => Got::Pending,
                Poll::Ready(None) => Got::Done,
                Poll::Ready(Some(i)) => Got::Fut(i),
            }
        }
        fn s(p: Poll<Option<(usize, u32)>>) -> Got {
            match p {
                Poll::Pending => Got::Pending,
                Poll::Ready(None) => Got::Done,
                Poll::Ready(Some((i, q))) => Got::Item(i, q),
            }
        }
        match self {
            Coll::BU(c) => f(c.as_mut().poll_next(cx)),
            Coll::UB(c) => f(Pin::new(c).poll_next(cx)),
            Coll::UU(c) => f(Pin::new(c).poll_next(cx)),
            Coll::OB(c) => f(Pin::new(c).poll_next(cx)),
            Coll::OU(c) => f(Pin::new(c).poll_next(cx)),
            Coll::MB(c) => s(Pin::new(c).poll_next(cx)),
            Coll::MU(c) => s(Pin::new(c).poll_next(cx)),
            Coll::JA(c) => match Pin::new(c).poll(cx) {
                Poll::Pending => Got::Pending,
                Poll::Ready(v) => Got::Vec(v),
            },
        }
    }
}

// ------------------------------------------------------------------------------------------------
// one execution (runs inside shuttle)

fn fail(prop: u32, sig: &str, msg: String) -> ! {
    violate(prop, sig, msg);
    panic!("VERIF_STOP");
}

fn take_waker(sh: &Shared, c: usize, keep_last: bool) -> Option<Waker> {
    let mut g = sh.stash[c].lock().unwrap();
    if g.is_empty() || (keep_last && g.len() == 1) {
        None
    } else {
        Some(g.remove(0))
    }
}
fn clone_waker(sh: &Shared, c: usize) -> Option<Waker> {
    // clone outside the lock (the vtable call is a scheduling point)
    let w = {
        let mut g = sh.stash[c].lock().unwrap();
        if g.is_empty() {
            return None;
        }
        g.remove(0)
    };
    let cl = w.clone();
    sh.stash[c].lock().unwrap().push(w);
    Some(cl)
}

fn waker_thread(tid: usize, script: Vec<WOp>, sh: Arc<Shared>, is_merge: bool, drain: bool, nthreads: usize) {
    for op in script {
        CUR.with(|c| c.set(tid));
        match op {
            WOp::Complete(c, how) | WOp::Wake(c, how) | WOp::End(c, how) => {
                let c = c as usize % sh.n;
                let Some(w) = clone_waker(&sh, c) else { continue };
                CUR.with(|x| x.set(tid));
                match op {
                    WOp::Complete(..) => {
                        sh.ready[c].fetch_add(1, Ordering::SeqCst);
                    }
                    WOp::End(..) => {
                        if is_merge {
                            sh.ended[c].store(true, Ordering::SeqCst);
                        } else {
                            sh.ready[c].fetch_add(1, Ordering::SeqCst);
                        }
                    }
                    _ => {}
                }
                sh.wake_calls.fetch_add(1, Ordering::SeqCst);
                let done_before = sh.done[c].load(Ordering::SeqCst);
                match how % 3 {
                    0 => {
                        w.wake_by_ref();
                        CUR.with(|x| x.set(tid));
                        drop(w);
                    }
                    1 => {
                        let w2 = w.clone();
                        CUR.with(|x| x.set(tid));
                        w2.wake();
                        CUR.with(|x| x.set(tid));
                        drop(w);
                    }
                    _ => w.wake(),
                }
                if done_before || sh.done[c].load(Ordering::SeqCst) {
                    sh.stale_wakes.fetch_add(1, Ordering::SeqCst);
                } else {
                    sh.live_wakes[c].fetch_add(1, Ordering::SeqCst);
                }
            }
            WOp::CloneDrop(c) => {
                let c = c as usize % sh.n;
                if let Some(w) = clone_waker(&sh, c) {
                    CUR.with(|x| x.set(tid));
                    drop(w);
                }
            }
            WOp::CloneKeep(c) => {
                let c = c as usize % sh.n;
                if let Some(w) = clone_waker(&sh, c) {
                    CUR.with(|x| x.set(tid));
                    sh.stash[c].lock().unwrap().push(w);
                }
            }
            WOp::DropOne(c) => {
                let c = c as usize % sh.n;
                if let Some(w) = take_waker(&sh, c, true) {
                    CUR.with(|x| x.set(tid));
                    drop(w);
                }
            }
            WOp::Yield => shuttle::thread::yield_now(),
        }
    }
    if drain {
        // the collection is dropped early in this scenario: let the last reference to the waker block
        // die on a waker thread (each thread empties the stashes of "its" children)
        for c in (0..sh.n).filter(|c| c % nthreads == tid - 1) {
            loop {
                CUR.with(|x| x.set(tid));
                let Some(w) = take_waker(&sh, c, false) else { break };
                CUR.with(|x| x.set(tid));
                drop(w);
            }
        }
    }
    CUR.with(|c| c.set(tid));
    sh.threads_done.fetch_add(1, Ordering::SeqCst);
}

#[derive(Default, Clone, Debug)]
struct ExecStats {
    switches_in_crate: u64,
    preemptions: u64,
    vt_offthread: u64,
    polls: u64,
    yielded: u64,
    task_wakes: u64,
}

thread_local! {
    static LAST_STATS: RefCell<ExecStats> = RefCell::new(ExecStats::default());
}

fn execution(sc: &Scenario) {
    IN_EXEC.with(|c| c.set(true));
    CUR.with(|c| c.set(0));
    LEDGER.with(|l| {
        *l.borrow_mut() = Ledger {
            active: true,
            ..Ledger::default()
        }
    });
    let n = (sc.n as usize).clamp(1, 80);
    let is_merge = matches!(sc.subj, Subj::MB | Subj::MU);
    // extra children may be pushed later
    let pushes = sc.poller.iter().filter(|p| matches!(p, POp::Push)).count();
    let total = n + pushes;
    let sh = Arc::new(Shared::new(total));
    let tw: Vec<Waker> = (0..2).map(|k| Waker::from(TaskW::new(k, &sh))).collect();
    let mk = |i: usize| SFut { id: i, sh: sh.clone() };
    let ms = |i: usize| SSrc { id: i, sh: sh.clone() };
    let cap = n + sc.extra_cap as usize;
    let mut coll = Some(match sc.subj {
        Subj::UB => {
            let mut c = FuturesUnorderedBounded::new(cap);
            for i in 0..n {
                c.push(mk(i));
            }
            Coll::UB(c)
        }
        Subj::UU => {
            let mut c = FuturesUnordered::with_capacity(1);
            for i in 0..n {
                c.push(mk(i));
            }
            Coll::UU(c)
        }
        Subj::OB => {
            let mut c = FuturesOrderedBounded::new(cap);
            for i in 0..n {
                c.push_back(mk(i));
            }
            Coll::OB(c)
        }
        Subj::OU => {
            let mut c = FuturesOrdered::with_capacity(1);
            for i in 0..n {
                c.push_back(mk(i));
            }
            Coll::OU(c)
        }
        Subj::MB => Coll::MB((0..n).map(ms).collect()),
        Subj::MU => Coll::MU((0..n).map(ms).collect()),
        Subj::JA => Coll::JA(join_all((0..n).map(mk))),
        Subj::BU => Coll::BU(Box::pin(
            UpIter {
                next: 0,
                n,
                sh: sh.clone(),
            }
            .buffered_unordered(cap.max(1)),
        )),
    });
    let bounded = matches!(sc.subj, Subj::UB | Subj::OB | Subj::MB | Subj::JA | Subj::BU);
    let gb = coll.as_ref().unwrap().group_blocks();
    LEDGER.with(|l| {
        let mut l = l.borrow_mut();
        l.bounded_coll_alive = bounded;
        l.live_groups = gb;
    });
    let mut held = n;
    // which children are (or were) really inside the collection: the first n, and every accepted push
    let mut inside: Vec<bool> = (0..total).map(|i| i < n).collect();
    let mut yielded: Vec<bool> = vec![false; total];
    let mut items: Vec<u32> = vec![0; total];
    let mut order: Vec<usize> = Vec::new();
    let mut next_push = n;
    let mut stats = ExecStats::default();
    let mut resolved = false;
    let first_pending;

    let handle = |g: Got, yielded: &mut Vec<bool>, items: &mut Vec<u32>, order: &mut Vec<usize>, held: &mut usize, resolved: &mut bool, sh: &Shared| match g {
        Got::Fut(i) => {
            if i >= yielded.len() || yielded[i] || sh.ready[i].load(Ordering::SeqCst) == 0 {
                fail(2, "C02/bad-item", format!("item of child {i}: duplicate or not completed"));
            }
            yielded[i] = true;
            order.push(i);
            *held -= 1;
        }
        Got::Item(i, q) => {
            if q != items[i] {
                fail(11, "C11/per-source-order", format!("source {i}: got item {q}, expected {}", items[i]));
            }
            items[i] += 1;
        }
        Got::Vec(v) => {
            let n = v.len();
            for (i, x) in v.iter().enumerate() {
                if *x != i || sh.ready[i].load(Ordering::SeqCst) == 0 {
                    fail(7, "C07/bad-join-output", format!("index {i} holds {x}"));
                }
            }
            for y in yielded.iter_mut().take(n) {
                *y = true;
            }
            *held = 0;
            *resolved = true;
        }
        _ => {}
    };

    // first poll: every child is polled once and parks a waker, so that the threads have something to use
    let mut wakes_at_start = [sh.task_wakes[0].load(Ordering::SeqCst), sh.task_wakes[1].load(Ordering::SeqCst)];
    {
        let mut cx = Context::from_waker(&tw[0]);
        let g = coll.as_mut().unwrap().poll(&mut cx);
        stats.polls += 1;
        first_pending = matches!(g, Got::Pending);
        handle(g, &mut yielded, &mut items, &mut order, &mut held, &mut resolved, &sh);
    }
    let nthreads = sc.threads.len();
    let mut handles = Vec::new();
    for (t, script) in sc.threads.iter().enumerate() {
        let sh2 = sh.clone();
        let script = script.clone();
        let drain = sc.drop_early;
        handles.push(shuttle::thread::spawn(move || waker_thread(t + 1, script, sh2, is_merge, drain, nthreads)));
    }
    // poller script, concurrent with the waker threads
    let mut last_k = 0usize;
    let mut last_pending = first_pending;
    for op in &sc.poller {
        CUR.with(|c| c.set(0));
        match op {
            POp::Poll(k) => {
                if resolved {
                    continue;
                }
                let k = *k as usize % 2;
                wakes_at_start = [sh.task_wakes[0].load(Ordering::SeqCst), sh.task_wakes[1].load(Ordering::SeqCst)];
                let mut cx = Context::from_waker(&tw[k]);
                let g = coll.as_mut().unwrap().poll(&mut cx);
                CUR.with(|c| c.set(0));
                stats.polls += 1;
                last_k = k;
                last_pending = matches!(g, Got::Pending);
                handle(g, &mut yielded, &mut items, &mut order, &mut held, &mut resolved, &sh);
            }
            POp::Yield => shuttle::thread::yield_now(),
            POp::Push => {
                let i = next_push;
                next_push += 1;
                LEDGER.with(|l| l.borrow_mut().in_coll_call = true);
                let ok = match coll.as_mut().unwrap() {
                    Coll::UB(c) => c.try_push(mk(i)).is_ok(),
                    Coll::UU(c) => {
                        c.push(mk(i));
                        true
                    }
                    Coll::OB(c) => c.try_push_back(mk(i)).is_ok(),
                    Coll::OU(c) => {
                        c.push_back(mk(i));
                        true
                    }
                    Coll::MB(c) => c.try_push(ms(i)).is_ok(),
                    Coll::MU(c) => {
                        c.push(ms(i));
                        true
                    }
                    Coll::JA(_) | Coll::BU(_) => false,
                };
                let gb = coll.as_ref().unwrap().group_blocks();
                LEDGER.with(|l| {
                    let mut l = l.borrow_mut();
                    l.in_coll_call = false;
                    l.live_groups = gb;
                });
                if ok {
                    inside[i] = true;
                    held += 1;
                    // a push after a Pending poll is not notified; the executor below polls again anyway
                    last_pending = false;
                }
            }
        }
    }
    if sc.drop_early {
        // the collection dies while other threads may still be using its wakers (C03)
        CUR.with(|c| c.set(0));
        LEDGER.with(|l| {
            let mut l = l.borrow_mut();
            l.bounded_coll_alive = false;
            l.live_groups.clear();
        });
        drop(coll.take());
        CUR.with(|c| c.set(0));
    }
    // executor loop until quiescence: poll while an item came or the waker of the MOST RECENT poll was invoked
    let mut guard = 0u32;
    loop {
        guard += 1;
        if guard > 20_000 {
            fail(13, "C13/no-quiescence", "executor loop did not quiesce".into());
        }
        CUR.with(|c| c.set(0));
        let all_done = sh.threads_done.load(Ordering::SeqCst) == nthreads;
        let Some(c) = coll.as_mut() else {
            if all_done {
                break;
            }
            shuttle::thread::yield_now();
            continue;
        };
        if resolved {
            if all_done {
                break;
            }
            shuttle::thread::yield_now();
            continue;
        }
        let woken = sh.task_wakes[last_k].load(Ordering::SeqCst) > wakes_at_start[last_k];
        if !last_pending || woken {
            wakes_at_start = [sh.task_wakes[0].load(Ordering::SeqCst), sh.task_wakes[1].load(Ordering::SeqCst)];
            // alternate the task waker now and then: the notification must follow
            let k = if stats.polls % 3 == 2 { 1 - last_k } else { last_k };
            let mut cx = Context::from_waker(&tw[k]);
            let g = c.poll(&mut cx);
            CUR.with(|x| x.set(0));
            stats.polls += 1;
            last_k = k;
            last_pending = matches!(g, Got::Pending);
            if matches!(g, Got::Done) {
                last_pending = true;
                if all_done {
                    break;
                }
            }
            handle(g, &mut yielded, &mut items, &mut order, &mut held, &mut resolved, &sh);
            continue;
        }
        // the task sleeps
        if all_done {
            break;
        }
        shuttle::thread::yield_now();
    }
    for h in handles {
        let _ = h.join();
    }
    CUR.with(|c| c.set(0));
    // C12 under any schedule: every child poll is paid for by a queue entry, and queue entries are only made by an
    // accepted push, by a child-waker invocation or by a merge re-arming a source that yielded
    {
        let polls: u64 = (0..total).map(|i| sh.poll_started[i].load(Ordering::SeqCst) as u64).sum();
        let pushes = inside.iter().filter(|b| **b).count() as u64;
        let wakes = sh.wake_calls.load(Ordering::SeqCst) as u64;
        let rearms: u64 = items.iter().map(|x| *x as u64).sum();
        // per child (sharper): a child is polled once for its push, once per invocation of its own waker while it was
        // alive and once per item it yielded; invocations that may have hit a vacated or re-used slot are pooled
        let pool = sh.stale_wakes.load(Ordering::SeqCst) as u64;
        for i in 0..total {
            let p = sh.poll_started[i].load(Ordering::SeqCst) as u64;
            let lw = sh.live_wakes[i].load(Ordering::SeqCst) as u64;
            if p > 1 + lw + items[i] as u64 + pool {
                violate(
                    12,
                    "C12/child-polled-without-notification",
                    format!("child {i} was polled {p} times: 1 push + {lw} invocations of its waker + {} items + {pool} possibly stale invocations", items[i]),
                );
                break;
            }
        }
        if polls > pushes + wakes + rearms {
            violate(
                12,
                "C12/polled-without-notification",
                format!("{polls} child polls > {pushes} accepted pushes + {wakes} child-waker invocations + {rearms} merge items"),
            );
        }
    }
    // quiescence oracle (C01): the task is asleep for good - nothing that was woken may be left behind
    if coll.is_some() && !resolved {
        let is_join = matches!(sc.subj, Subj::JA);
        for i in 0..next_push {
            if inside[i] && sh.poll_started[i].load(Ordering::SeqCst) == 0 {
                fail(
                    1,
                    "C01/lost-wake/quiescent/never-polled",
                    format!("task asleep (waker {last_k} not invoked since its last poll began) but child {i} has been in the collection since before that poll and was never polled"),
                );
            }
            if is_merge {
                if sh.done[i].load(Ordering::SeqCst) {
                    // items made available after the source had ended do not exist
                    continue;
                }
                let avail = sh.ready[i].load(Ordering::SeqCst);
                let started = sh.poll_started[i].load(Ordering::SeqCst) > 0;
                if started && items[i] < avail {
                    fail(
                        1,
                        "C01/lost-wake/quiescent",
                        format!("task asleep (waker {last_k} not invoked since its last poll) but source {i} has {avail} items available and only {} were yielded", items[i]),
                    );
                }
                if started && sh.ended[i].load(Ordering::SeqCst) && !sh.done[i].load(Ordering::SeqCst) {
                    fail(1, "C01/lost-wake/quiescent", format!("task asleep but ended source {i} was never polled to None"));
                }
            } else if !is_join && sh.ready[i].load(Ordering::SeqCst) > 0 && !yielded[i] && sh.poll_started[i].load(Ordering::SeqCst) > 0 {
                // ordered collections legitimately hold back completed outputs behind a pending head
                let ordered = matches!(sc.subj, Subj::OB | Subj::OU);
                if !ordered || !sh.done[i].load(Ordering::SeqCst) {
                    fail(
                        1,
                        "C01/lost-wake/quiescent",
                        format!("task asleep (waker {last_k} not invoked since its last poll began) but child {i} was completed+woken and is still un-polled/un-yielded"),
                    );
                }
            } else if is_join && sh.ready[i].load(Ordering::SeqCst) > 0 && !sh.done[i].load(Ordering::SeqCst) && sh.poll_started[i].load(Ordering::SeqCst) > 0 {
                fail(1, "C01/lost-wake/quiescent", format!("join asleep but input {i} was completed+woken and never re-polled"));
            }
        }
        if matches!(sc.subj, Subj::OB | Subj::OU) {
            // queue order
            for w in order.windows(2) {
                if w[0] > w[1] {
                    fail(4, "C04/out-of-order", format!("yield order {order:?}"));
                }
            }
        }
    }
    if sh.polled_after_done.load(Ordering::SeqCst) {
        fail(5, "C05/polled-after-completion", "a finished child was polled again".into());
    }
    // everything dies; the block must be released exactly once, when the last owner goes
    LEDGER.with(|l| {
        let mut l = l.borrow_mut();
        l.bounded_coll_alive = false;
        l.live_groups.clear();
    });
    drop(coll.take());
    CUR.with(|c| c.set(0));
    for i in 0..total {
        let st = std::mem::take(&mut *sh.stash[i].lock().unwrap());
        drop(st);
    }
    drop(tw);
    let tw_alive = sh.tw_live.load(Ordering::SeqCst);
    LEDGER.with(|l| {
        let mut l = l.borrow_mut();
        l.active = false;
        let leaked: Vec<usize> = l.blocks.iter().filter(|b| !b.released).map(|b| b.base).collect();
        if !leaked.is_empty() {
            l.violations
                .push((3, "C03/block-leaked".into(), format!("{} blocks never released", leaked.len())));
        } else if tw_alive != 0 {
            // I15: every block reported released, yet somebody still references a task waker: a block was freed
            // without destroying the registration cell in its header
            l.violations.push((
                3,
                "C03/task-waker-leaked".into(),
                format!("{tw_alive} task-waker objects still referenced after the collection, its children and every waker are gone"),
            ));
        }
        stats.switches_in_crate = l.switches_in_crate;
        stats.preemptions = l.preemptions_in_crate;
        stats.vt_offthread = l.vt_calls_offthread;
    });
    for i in 0..next_push.min(total) {
        let d = sh.dropped[i].load(Ordering::SeqCst);
        if d != 1 {
            violate(6, "C06/drop-count", format!("child {i} dropped {d} times"));
        }
    }
    stats.yielded = yielded.iter().filter(|y| **y).count() as u64 + items.iter().map(|x| *x as u64).sum::<u64>();
    stats.task_wakes = (sh.task_wakes[0].load(Ordering::SeqCst) + sh.task_wakes[1].load(Ordering::SeqCst)) as u64;
    LAST_STATS.with(|s| *s.borrow_mut() = stats);
    IN_EXEC.with(|c| c.set(false));
    if LEDGER.with(|l| !l.borrow().violations.is_empty()) {
        panic!("VERIF_STOP");
    }
}

/// run one (scenario, schedule seed) pair; returns violations
fn run_one(sc: &Scenario, sched_seed: u64) -> (Vec<(u32, String, String)>, ExecStats, Option<String>) {
    let mut cfg = Config::new();
    cfg.max_steps = MaxSteps::FailAfter(400_000);
    cfg.failure_persistence = shuttle::FailurePersistence::None;
    cfg.stack_size = 0x10000;
    let sc2 = sc.clone();
    LEDGER.with(|l| *l.borrow_mut() = Ledger::default());
    let r = catch_unwind(AssertUnwindSafe(|| {
        if sc.pct_depth == 0 {
            let sch = RandomScheduler::new_from_seed(sched_seed, 1);
            Runner::new(sch, cfg).run(move || execution(&sc2));
        } else {
            let sch = PctScheduler::new_from_seed(sched_seed, sc.pct_depth as usize, 1);
            Runner::new(sch, cfg).run(move || execution(&sc2));
        }
    }));
    IN_EXEC.with(|c| c.set(false));
    // POISONED is deliberately never cleared on this OS thread: shuttle may tear down the abandoned
    // continuations of a failed execution later, and they must not free anything either
    let v = LEDGER.with(|l| std::mem::take(&mut l.borrow_mut().violations));
    let st = LAST_STATS.with(|s| s.borrow().clone());
    match r {
        Ok(()) => (v, st, None),
        Err(e) => {
            let msg = if let Some(s) = e.downcast_ref::<&str>() {
                s.to_string()
            } else if let Some(s) = e.downcast_ref::<String>() {
                s.clone()
            } else {
                "<panic>".into()
            };
            if !v.is_empty() {
                (v, st, None)
            } else if msg.contains("max_steps") || msg.contains("exceeded") {
                (v, st, Some(format!("inconclusive: {msg}")))
            } else if msg.contains("deadlock") {
                (vec![(1, "C01/deadlock".into(), msg)], st, None)
            } else {
                (vec![(0, "Cxx/panic".into(), msg)], st, None)
            }
        }
    }
}

// ------------------------------------------------------------------------------------------------
// generators

fn wop(n: u8) -> impl Strategy<Value = WOp> {
    prop_oneof![
        8 => (0..n, 0u8..3).prop_map(|(c, h)| WOp::Complete(c, h)),
        3 => (0..n, 0u8..3).prop_map(|(c, h)| WOp::Wake(c, h)),
        2 => (0..n).prop_map(WOp::CloneDrop),
        1 => (0..n).prop_map(WOp::CloneKeep),
        2 => (0..n).prop_map(WOp::DropOne),
        2 => (0..n, 0u8..3).prop_map(|(c, h)| WOp::End(c, h)),
        1 => Just(WOp::Yield),
    ]
}

fn scenario(prop: u32) -> impl Strategy<Value = Scenario> {
    let subj = if prop == 3 {
        prop_oneof![4 => Just(Subj::UB), 4 => Just(Subj::UU), 1 => Just(Subj::OU), 1 => Just(Subj::MB), 2 => Just(Subj::MU)].boxed()
    } else {
        prop_oneof![4 => Just(Subj::UB), 4 => Just(Subj::UU), 1 => Just(Subj::OB), 2 => Just(Subj::OU), 3 => Just(Subj::MB), 3 => Just(Subj::MU), 1 => Just(Subj::JA), 2 => Just(Subj::BU)].boxed()
    };
    (subj, prop_oneof![24 => 1u8..5, 1 => 60u8..72], 0u8..3, 1usize..4, prop::bool::weighted(if prop == 3 { 0.5 } else { 0.1 }), prop_oneof![3 => Just(0u8), 1 => 1u8..4])
        .prop_flat_map(|(subj, n, extra, nt, de, pct)| {
            let pushable = !matches!(subj, Subj::JA | Subj::BU);
            let pop = if pushable {
                prop_oneof![6 => (0u8..2).prop_map(POp::Poll), 2 => Just(POp::Yield), 1 => Just(POp::Push)].boxed()
            } else {
                prop_oneof![6 => (0u8..2).prop_map(POp::Poll), 2 => Just(POp::Yield)].boxed()
            };
            (
                Just(subj),
                Just(n),
                Just(extra),
                proptest::collection::vec(proptest::collection::vec(wop(n), 1..6), nt..=nt),
                proptest::collection::vec(pop, 0..6),
                Just(de),
                Just(pct),
            )
        })
        .prop_map(|(subj, n, extra_cap, threads, poller, drop_early, pct_depth)| Scenario {
            subj,
            n,
            extra_cap,
            threads,
            poller,
            drop_early,
            pct_depth,
        })
}

fn splitmix(mut x: u64) -> u64 {
    x = x.wrapping_add(0x9E3779B97F4A7C15);
    let mut z = x;
    z = (z ^ (z >> 30)).wrapping_mul(0xBF58476D1CE4E5B9);
    z = (z ^ (z >> 27)).wrapping_mul(0x94D049BB133111EB);
    z ^ (z >> 31)
}

#[derive(Default)]
struct Agg {
    scenarios: u64,
    executions: u64,
    nontrivial: HashSet<u64>,
    subjects: BTreeMap<String, u64>,
    switches: u64,
    preemptions: u64,
    vt_offthread: u64,
    polls: u64,
    inconclusive: u64,
    samples: Vec<Value>,
}

struct Failure {
    prop: u32,
    sig: String,
    msg: String,
    sc: Scenario,
    sched: u64,
}

fn run_engine(prop: u32, seed: u64, scenarios: u64, schedules: u64, threads: usize) -> (Agg, Vec<Failure>, f64) {
    let t0 = std::time::Instant::now();
    let shared = Arc::new(Mutex::new((Agg::default(), Vec::<Failure>::new())));
    let per = (scenarios + threads as u64 - 1) / threads as u64;
    let mut hs = Vec::new();
    for shard in 0..threads {
        let shared = shared.clone();
        hs.push(
            std::thread::Builder::new()
                .stack_size(64 << 20)
                .spawn(move || {
                    let sseed = splitmix(seed ^ splitmix(0xE2E2 + prop as u64 * 977 + shard as u64));
                    let cfg = PtConfig {
                        cases: per as u32,
                        failure_persistence: None,
                        rng_seed: RngSeed::Fixed(sseed),
                        rng_algorithm: RngAlgorithm::ChaCha,
                        max_shrink_iters: 300,
                        ..PtConfig::default()
                    };
                    let mut runner = TestRunner::new(cfg);
                    let agg = RefCell::new(Agg::default());
                    let failed: RefCell<Option<(u32, String, String, u64)>> = RefCell::new(None);
                    let res = runner.run(&scenario(prop), |sc| {
                        let mut agg = agg.borrow_mut();
                        let mut failed = failed.borrow_mut();
                        if let Some((_, fsig, _, fsched)) = &*failed {
                            // shrinking: same schedule seeds, same signature
                            for j in 0..schedules {
                                let ss = splitmix(sseed ^ splitmix(j));
                                let _ = fsched;
                                let (v, _, _) = run_one(&sc, ss);
                                if let Some((_, sig, msg)) = v.iter().find(|(p, s, _)| (*p == prop || *p == 0) && s == fsig) {
                                    return Err(TestCaseError::fail(format!("{sig}\u{1}{msg}\u{1}{ss}")));
                                }
                            }
                            return Ok(());
                        }
                        agg.scenarios += 1;
                        *agg.subjects.entry(format!("{:?}", sc.subj)).or_insert(0) += 1;
                        for j in 0..schedules {
                            let ss = splitmix(sseed ^ splitmix(j));
                            let (v, st, inc) = run_one(&sc, ss);
                            agg.executions += 1;
                            agg.switches += st.switches_in_crate;
                            agg.vt_offthread += st.vt_offthread;
                            agg.polls += st.polls;
                            if inc.is_some() {
                                agg.inconclusive += 1;
                            }
                            // non-trivial: a waker vtable call ran on a non-polling thread AND the scheduler
                            // switched threads inside crate code at least once
                            agg.preemptions += st.preemptions;
                            if st.vt_offthread > 0 && st.preemptions > 0 {
                                let d = digest(&sc, ss);
                                if agg.nontrivial.insert(d) && agg.samples.len() < 2 {
                                    agg.samples.push(json!({"scenario": sc, "schedule_seed": ss, "scheduling_points_inside_crate": st.switches_in_crate, "preemptions_inside_crate": st.preemptions,
                                        "waker_vtable_calls_on_other_threads": st.vt_offthread, "polls": st.polls, "items_yielded": st.yielded, "task_waker_invocations": st.task_wakes}));
                                }
                            }
                            if let Some((p, sig, msg)) = v.iter().find(|(p, _, _)| *p == prop || *p == 0) {
                                *failed = Some((*p, sig.clone(), msg.clone(), ss));
                                return Err(TestCaseError::fail(format!("{sig}\u{1}{msg}\u{1}{ss}")));
                            }
                        }
                        Ok(())
                    });
                    let mut g = shared.lock().unwrap();
                    let a = agg.into_inner();
                    g.0.scenarios += a.scenarios;
                    g.0.executions += a.executions;
                    g.0.nontrivial.extend(a.nontrivial);
                    for (k, v) in a.subjects {
                        *g.0.subjects.entry(k).or_insert(0) += v;
                    }
                    g.0.switches += a.switches;
                    g.0.preemptions += a.preemptions;
                    g.0.vt_offthread += a.vt_offthread;
                    g.0.polls += a.polls;
                    g.0.inconclusive += a.inconclusive;
                    for s in a.samples {
                        if g.0.samples.len() < 4 {
                            g.0.samples.push(s);
                        }
                    }
                    if let Err(TestError::Fail(reason, sc)) = res {
                        let r = reason.message().to_string();
                        let mut it = r.split('\u{1}');
                        let sig = it.next().unwrap_or("").to_string();
                        let msg = it.next().unwrap_or("").to_string();
                        let sched: u64 = it.next().and_then(|s| s.parse().ok()).unwrap_or(0);
                        g.1.push(Failure {
                            prop,
                            sig,
                            msg,
                            sc,
                            sched,
                        });
                    }
                })
                .unwrap(),
        );
    }
    for h in hs {
        let _ = h.join();
    }
    let (a, f) = Arc::try_unwrap(shared).ok().unwrap().into_inner().unwrap();
    (a, f, t0.elapsed().as_secs_f64())
}

fn main() {
    let args: Vec<String> = std::env::args().collect();
    if std::env::var("VERIF_PANIC_VERBOSE").is_err() {
        std::panic::set_hook(Box::new(|_| {}));
    }
    futures_buffered::verif::set_sched(Some(sched_cb));
    futures_buffered::verif::set_probe(Some(probe_cb));
    let dir = std::env::var("VERIF_DIR").unwrap_or_else(|_| "/verif".into());
    match args.get(1).map(|s| s.as_str()) {
        Some("run") => {
            let prop: u32 = args[2].trim_start_matches('C').parse().unwrap();
            let tier = args.get(3).cloned().unwrap_or_else(|| "quick".into());
            let (mut scen, mut sched) = if tier == "thorough" { (6000u64, 400u64) } else { (480, 120) };
            let mut out: Option<String> = None;
            let mut i = 4;
            while i < args.len() {
                match args[i].as_str() {
                    "--scenarios" => {
                        scen = args[i + 1].parse().unwrap();
                        i += 1
                    }
                    "--schedules" => {
                        sched = args[i + 1].parse().unwrap();
                        i += 1
                    }
                    "--out" => {
                        out = Some(args[i + 1].clone());
                        i += 1
                    }
                    _ => {}
                }
                i += 1;
            }
            let seed: u64 = std::env::var("VERIF_SEED").ok().and_then(|s| s.parse().ok()).unwrap_or(1);
            let threads = std::thread::available_parallelism().map(|n| n.get()).unwrap_or(8).min(16);
            let pid = format!("C{prop:02}");
            let mut vios = Vec::new();
            let mut seen = HashSet::new();
            // replay tier: committed (scenario, schedule seed) pairs of this property
            let mut replays_run = 0u32;
            if let Ok(rd) = std::fs::read_dir(format!("{dir}/replays/regress")) {
                let mut files: Vec<_> = rd.flatten().map(|e| e.path()).filter(|p| p.extension().map_or(false, |e| e == "json")).collect();
                files.sort();
                for f in files {
                    let Ok(txt) = std::fs::read_to_string(&f) else { continue };
                    let Ok(v) = serde_json::from_str::<Value>(&txt) else { continue };
                    if v["engine"].as_str() != Some("E2") || v["property"].as_str() != Some(pid.as_str()) {
                        continue;
                    }
                    let Ok(sc) = serde_json::from_value::<Scenario>(v["scenario"].clone()) else { continue };
                    let ss = v["schedule_seed"].as_u64().unwrap_or(0);
                    replays_run += 1;
                    let (vs, _, _) = run_one(&sc, ss);
                    if let Some((_, sig, msg)) = vs.iter().find(|(p, _, _)| *p == prop || *p == 0) {
                        if seen.insert(sig.clone()) {
                            vios.push(json!({"signature": sig, "message": msg, "replay": f.display().to_string(), "found_for": pid}));
                        }
                    }
                }
            }
            let (agg, fails, wall) = run_engine(prop, seed, scen, sched, threads);
            for f in &fails {
                if !seen.insert(f.sig.clone()) {
                    continue;
                }
                let path = format!("{dir}/replays/{pid}-E2-{:016x}.json", digest(&f.sc, f.sched));
                let _ = std::fs::create_dir_all(format!("{dir}/replays"));
                let doc = json!({"property": pid, "engine": "E2", "signature": f.sig, "message": f.msg, "scenario": f.sc, "schedule_seed": f.sched, "seed": seed});
                let _ = std::fs::write(&path, serde_json::to_string_pretty(&doc).unwrap());
                vios.push(json!({"signature": f.sig, "message": f.msg, "replay": path, "found_for": format!("C{:02}", f.prop)}));
            }
            println!(
                "{pid} E2 {tier} seed={seed}: {} scenarios x {} schedules = {} executions, {} distinct non-trivial, {} scheduling points / {} pre-emptions inside the crate, {} off-thread vtable calls, {} inconclusive, {:.1}s",
                agg.scenarios,
                sched,
                agg.executions,
                agg.nontrivial.len(),
                agg.switches,
                agg.preemptions,
                agg.vt_offthread,
                agg.inconclusive,
                wall
            );
            let summary = json!({
                "engine": "E2-schedules", "property": pid, "tier": tier, "seed": seed,
                "scenarios": agg.scenarios, "schedules_per_scenario": sched, "executions": agg.executions,
                "distinct_nontrivial": agg.nontrivial.len(),
                "rule": "execution = generated scenario (subject, children, poller script, 1-3 waker-thread scripts, early drop) x one seeded shuttle schedule (random or PCT); non-trivial = a waker vtable call ran on a non-polling thread AND the scheduler really pre-empted a thread at a scheduling point inside waker_list.rs (another thread ran before it continued); distinct = distinct (scenario, schedule seed)",
                "preemptions_inside_crate": agg.preemptions,
                "scheduling_points_inside_crate": agg.switches, "waker_vtable_calls_off_thread": agg.vt_offthread,
                "polls": agg.polls, "inconclusive_executions": agg.inconclusive, "subjects": agg.subjects,
                "regression_replays_run": replays_run,
                "samples": agg.samples, "violations": vios, "wall_s": wall,
            });
            if let Some(o) = out {
                let _ = std::fs::write(o, serde_json::to_string_pretty(&summary).unwrap());
            }
            if !vios.is_empty() {
                for v in &vios {
                    println!("  [{}] {}", v["signature"].as_str().unwrap_or(""), v["message"].as_str().unwrap_or(""));
                    println!("VIOLATION property={pid} replay={}", v["replay"].as_str().unwrap_or(""));
                }
                std::process::exit(1);
            }
        }
        Some("replay") => {
            let s = std::fs::read_to_string(&args[2]).expect("read replay");
            let v: Value = serde_json::from_str(&s).expect("json");
            let sc: Scenario = serde_json::from_value(v["scenario"].clone()).expect("scenario");
            let ss = v["schedule_seed"].as_u64().unwrap_or(0);
            let pid = v["property"].as_str().unwrap_or("C00").to_string();
            println!("replaying scenario {sc:?} with schedule seed {ss}");
            let (vs, st, inc) = run_one(&sc, ss);
            println!("stats: {st:?} {inc:?}");
            let prop: u32 = pid.trim_start_matches('C').parse().unwrap_or(0);
            let mut bad = false;
            for (p, sig, msg) in vs {
                println!("violated: C{p:02} [{sig}] {msg}");
                if p == prop || p == 0 {
                    bad = true;
                }
            }
            if bad {
                println!("VIOLATION property={pid} replay={}", args[2]);
                std::process::exit(1);
            }
            println!("replay: property {pid} held");
        }
        _ => {
            eprintln!("usage: vsched run <Cxx> <quick|thorough> [--scenarios N] [--schedules N] [--out f] | replay <file>");
            std::process::exit(2);
        }
    }
}
