//! vthreads - engine E4: generated waker-traffic scenarios on REAL threads, meant to run natively,
//! under ThreadSanitizer (-Zsanitizer=thread, -Zbuild-std) and under Miri (-Zmiri-many-seeds).
//! The sanitizer / Miri is the oracle for races, use-after-free and leaks (this is the only engine that
//! can see a too-weak memory ordering); in addition the functional oracle of E2 is evaluated at
//! quiescence: after every waker thread has been joined, a poll that returns Pending without its task
//! waker having been invoked must not leave a completed+woken child behind.
//!
//!   vthreads --seed S --iters N [--max-children K]
//! Scenarios are a pure function of (seed, iteration): a failure is replayed with the same arguments.

use futures_buffered::*;
use futures_core::Stream;
use std::future::Future;
use std::pin::Pin;
use std::sync::atomic::{AtomicBool, AtomicU32, AtomicUsize, Ordering};
use std::sync::{Arc, Mutex};
use std::task::{Context, Poll, Wake, Waker};

/// bumped by the polling thread at every step; a watchdog thread reports a stall (a hang inside the crate)
static PROGRESS: std::sync::atomic::AtomicU64 = std::sync::atomic::AtomicU64::new(0);
/// 0 = between scenarios, 1 = polling / pushing, 2 = dropping the collection, 3 = dropping the last wakers
static PHASE: std::sync::atomic::AtomicUsize = std::sync::atomic::AtomicUsize::new(0);
static CUR_ITER: std::sync::atomic::AtomicU64 = std::sync::atomic::AtomicU64::new(0);
fn step(phase: usize) {
    PHASE.store(phase, Ordering::Relaxed);
    PROGRESS.fetch_add(1, Ordering::Relaxed);
}

fn splitmix(x: &mut u64) -> u64 {
    *x = x.wrapping_add(0x9E3779B97F4A7C15);
    let mut z = *x;
    z = (z ^ (z >> 30)).wrapping_mul(0xBF58476D1CE4E5B9);
    z = (z ^ (z >> 27)).wrapping_mul(0x94D049BB133111EB);
    z ^ (z >> 31)
}

#[derive(Clone, Copy, Debug)]
enum WOp {
    Complete(usize, u8),
    Wake(usize, u8),
    CloneDrop(usize),
    CloneKeep(usize),
    DropOne(usize),
    Yield,
}

#[derive(Clone, Copy, Debug, PartialEq, Eq)]
enum Subj {
    UB,
    UU,
    OU,
    MB,
    MU,
    JA,
}

#[derive(Debug)]
struct Scenario {
    subj: Subj,
    n: usize,
    threads: Vec<Vec<WOp>>,
    drop_early: bool,
    change_waker: bool,
    /// UB/UU/OU: how many further children the poller pushes (one per yielded output) while the other threads are
    /// still using wakers - also stale wakers of the slots that these pushes re-use
    refill: usize,
}

fn gen(seed: u64, iter: u64, max_children: usize) -> Scenario {
    let mut s = seed ^ iter.wrapping_mul(0xA24BAED4963EE407);
    let r = &mut s;
    let subj = [Subj::UB, Subj::UU, Subj::UU, Subj::OU, Subj::MB, Subj::MU, Subj::JA, Subj::UB][(splitmix(r) % 8) as usize];
    let n = 1 + (splitmix(r) as usize % max_children.max(1));
    let nt = 1 + (splitmix(r) as usize % 3);
    let mut threads = Vec::new();
    for _ in 0..nt {
        let len = 1 + splitmix(r) as usize % 6;
        let mut v = Vec::new();
        for _ in 0..len {
            let c = splitmix(r) as usize % n;
            let how = (splitmix(r) % 3) as u8;
            v.push(match splitmix(r) % 16 {
                0..=7 => WOp::Complete(c, how),
                8..=9 => WOp::Wake(c, how),
                10..=11 => WOp::CloneDrop(c),
                12 => WOp::CloneKeep(c),
                13..=14 => WOp::DropOne(c),
                _ => WOp::Yield,
            });
        }
        threads.push(v);
    }
    Scenario {
        subj,
        n,
        threads,
        drop_early: splitmix(r) % 4 == 0,
        change_waker: splitmix(r) % 2 == 0,
        refill: if matches!(subj, Subj::UB | Subj::UU | Subj::OU) { (splitmix(r) % 4) as usize } else { 0 },
    }
}

struct Shared {
    n: usize,
    ready: Vec<AtomicU32>,
    done: Vec<AtomicBool>,
    dropped: Vec<AtomicU32>,
    produced: Vec<AtomicU32>,
    stash: Vec<Mutex<Vec<Waker>>>,
    polled_after_done: AtomicBool,
    threads_done: AtomicUsize,
}

struct SFut {
    id: usize,
    sh: Arc<Shared>,
}
impl Future for SFut {
    type Output = usize;
    fn poll(self: Pin<&mut Self>, cx: &mut Context<'_>) -> Poll<usize> {
        let (id, sh) = (self.id, &self.sh);
        if sh.done[id].load(Ordering::SeqCst) {
            sh.polled_after_done.store(true, Ordering::SeqCst);
            return Poll::Pending;
        }
        stash(sh, id, cx.waker());
        if sh.ready[id].load(Ordering::Relaxed) > 0 {
            sh.done[id].store(true, Ordering::SeqCst);
            Poll::Ready(id)
        } else {
            Poll::Pending
        }
    }
}
impl Drop for SFut {
    fn drop(&mut self) {
        self.sh.dropped[self.id].fetch_add(1, Ordering::SeqCst);
    }
}
struct SSrc {
    id: usize,
    sh: Arc<Shared>,
}
impl Stream for SSrc {
    type Item = (usize, u32);
    fn poll_next(self: Pin<&mut Self>, cx: &mut Context<'_>) -> Poll<Option<(usize, u32)>> {
        let (id, sh) = (self.id, &self.sh);
        stash(sh, id, cx.waker());
        let avail = sh.ready[id].load(Ordering::Relaxed);
        let out = sh.produced[id].load(Ordering::SeqCst);
        if out < avail {
            sh.produced[id].store(out + 1, Ordering::SeqCst);
            Poll::Ready(Some((id, out)))
        } else {
            Poll::Pending
        }
    }
}
impl Drop for SSrc {
    fn drop(&mut self) {
        self.sh.dropped[self.id].fetch_add(1, Ordering::SeqCst);
    }
}

fn stash(sh: &Shared, id: usize, w: &Waker) {
    let c = w.clone();
    let old = {
        let mut g = sh.stash[id].lock().unwrap();
        g.push(c);
        if g.len() > 3 {
            Some(g.remove(0))
        } else {
            None
        }
    };
    drop(old);
}
fn clone_waker(sh: &Shared, c: usize) -> Option<Waker> {
    let w = {
        let mut g = sh.stash[c].lock().unwrap();
        if g.is_empty() {
            return None;
        }
        g.remove(0)
    };
    let cl = w.clone();
    sh.stash[c].lock().unwrap().push(w);
    Some(cl)
}

struct TaskW {
    count: AtomicU32,
    thread: std::thread::Thread,
}
impl Wake for TaskW {
    fn wake(self: Arc<Self>) {
        self.wake_by_ref()
    }
    fn wake_by_ref(self: &Arc<Self>) {
        self.count.fetch_add(1, Ordering::SeqCst);
        self.thread.unpark();
    }
}

enum Coll {
    UB(FuturesUnorderedBounded<SFut>),
    UU(FuturesUnordered<SFut>),
    OU(FuturesOrdered<SFut>),
    MB(MergeBounded<SSrc>),
    MU(MergeUnbounded<SSrc>),
    JA(JoinAll<SFut>),
}
enum Got {
    Pending,
    Done,
    Fut(usize),
    Item(usize, u32),
    Vec(Vec<usize>),
}
impl Coll {
    fn poll(&mut self, cx: &mut Context<'_>) -> Got {
        fn f(p: Poll<Option<usize>>) -> Got {
            match p {
                Poll::Pending => Got::Pending,
                Poll::Ready(None) => Got::Done,
                Poll::Ready(Some(i)) => Got::Fut(i),
            }
        }
        fn s(p: Poll<Option<(usize, u32)>>) -> Got {
            match p {
                Poll::Pending => Got::Pending,
                Poll::Ready(None) => Got::Done,
                Poll::Ready(Some((i, q))) => Got::Item(i, q),
            }
        }
        match self {
            Coll::UB(c) => f(Pin::new(c).poll_next(cx)),
            Coll::UU(c) => f(Pin::new(c).poll_next(cx)),
            Coll::OU(c) => f(Pin::new(c).poll_next(cx)),
            Coll::MB(c) => s(Pin::new(c).poll_next(cx)),
            Coll::MU(c) => s(Pin::new(c).poll_next(cx)),
            Coll::JA(c) => match Pin::new(c).poll(cx) {
                Poll::Pending => Got::Pending,
                Poll::Ready(v) => Got::Vec(v),
            },
        }
    }
}

fn run(sc: &Scenario) -> Result<(u64, u64), String> {
    let n = sc.n;
    // ids n..total are pushed by the poller during the run (already complete when pushed)
    let total = n + sc.refill;
    let sh = Arc::new(Shared {
        n,
        ready: (0..total).map(|i| AtomicU32::new(if i >= n { 1 } else { 0 })).collect(),
        done: (0..total).map(|_| AtomicBool::new(false)).collect(),
        dropped: (0..total).map(|_| AtomicU32::new(0)).collect(),
        produced: (0..total).map(|_| AtomicU32::new(0)).collect(),
        stash: (0..total).map(|_| Mutex::new(Vec::new())).collect(),
        polled_after_done: AtomicBool::new(false),
        threads_done: AtomicUsize::new(0),
    });
    let is_merge = matches!(sc.subj, Subj::MB | Subj::MU);
    let tws: Vec<Arc<TaskW>> = (0..2)
        .map(|_| {
            Arc::new(TaskW {
                count: AtomicU32::new(0),
                thread: std::thread::current(),
            })
        })
        .collect();
    let wakers: Vec<Waker> = tws.iter().map(|t| Waker::from(t.clone())).collect();
    let mk = |i: usize| SFut { id: i, sh: sh.clone() };
    let ms = |i: usize| SSrc { id: i, sh: sh.clone() };
    let mut coll = Some(match sc.subj {
        Subj::UB => Coll::UB((0..n).map(mk).collect()),
        Subj::UU => {
            let mut c = FuturesUnordered::with_capacity(1);
            for i in 0..n {
                c.push(mk(i));
            }
            Coll::UU(c)
        }
        Subj::OU => {
            let mut c = FuturesOrdered::with_capacity(1);
            for i in 0..n {
                c.push_back(mk(i));
            }
            Coll::OU(c)
        }
        Subj::MB => Coll::MB((0..n).map(ms).collect()),
        Subj::MU => Coll::MU((0..n).map(ms).collect()),
        Subj::JA => Coll::JA(join_all((0..n).map(mk))),
    });
    let mut yielded = vec![false; total];
    let mut items = vec![0u32; total];
    let mut next_push = n;
    let mut resolved = false;
    let mut polls = 0u64;
    let mut last_k = 0usize;
    let mut at_start = [0u32; 2];
    let mut last_pending;
    macro_rules! handle {
        ($g:expr) => {
            match $g {
                Got::Fut(i) => {
                    if yielded[i] {
                        return Err(format!("child {i} yielded twice"));
                    }
                    yielded[i] = true;
                }
                Got::Item(i, q) => {
                    if q != items[i] {
                        return Err(format!("source {i}: item {q}, expected {}", items[i]));
                    }
                    items[i] += 1;
                }
                Got::Vec(v) => {
                    for (i, x) in v.iter().enumerate() {
                        if *x != i {
                            return Err(format!("join index {i} holds {x}"));
                        }
                        yielded[i] = true;
                    }
                    resolved = true;
                }
                _ => {}
            }
        };
    }
    {
        at_start[0] = tws[0].count.load(Ordering::SeqCst);
        let mut cx = Context::from_waker(&wakers[0]);
        let g = coll.as_mut().unwrap().poll(&mut cx);
        polls += 1;
        last_pending = matches!(g, Got::Pending);
        handle!(g);
    }
    let nthreads = sc.threads.len();
    // every thread gets its own clones up front, so that the threads share nothing with each other or
    // with the poller but the crate's waker block: no harness lock or SeqCst variable may order them
    // (a missing happens-before inside the crate must stay visible to the race detector)
    let mut own: Vec<Vec<Option<Waker>>> = Vec::new();
    for script in &sc.threads {
        let mut v = Vec::new();
        for op in script {
            let c = match *op {
                WOp::Complete(c, _) | WOp::Wake(c, _) | WOp::CloneDrop(c) | WOp::CloneKeep(c) | WOp::DropOne(c) => Some(c),
                WOp::Yield => None,
            };
            v.push(c.and_then(|c| clone_waker(&sh, c)));
        }
        own.push(v);
    }
    if sc.drop_early {
        // nothing but the collection and the threads' own clones may keep the block alive, so that the
        // last reference dies on whichever thread finishes last
        for i in 0..n {
            let st = std::mem::take(&mut *sh.stash[i].lock().unwrap());
            drop(st);
        }
    }
    let result: Result<(), String> = std::thread::scope(|scope| {
        for (script, mine) in sc.threads.iter().zip(own.into_iter()) {
            let sh = sh.clone();
            scope.spawn(move || {
                let mut kept: Vec<Waker> = Vec::new();
                for (op, w) in script.iter().zip(mine.into_iter()) {
                    match *op {
                        WOp::Complete(c, how) | WOp::Wake(c, how) => {
                            let Some(w) = w else { continue };
                            if matches!(op, WOp::Complete(..)) {
                                sh.ready[c].fetch_add(1, Ordering::Relaxed);
                            }
                            match how % 3 {
                                0 => {
                                    w.wake_by_ref();
                                    drop(w);
                                }
                                1 => {
                                    w.clone().wake();
                                    kept.push(w);
                                }
                                _ => w.wake(),
                            }
                        }
                        WOp::CloneDrop(_) => {
                            if let Some(w) = w {
                                drop(w.clone());
                                kept.push(w);
                            }
                        }
                        WOp::CloneKeep(_) => {
                            if let Some(w) = w {
                                kept.push(w.clone());
                                kept.push(w);
                            }
                        }
                        WOp::DropOne(_) => drop(w),
                        WOp::Yield => std::thread::yield_now(),
                    }
                }
                drop(kept);
                sh.threads_done.fetch_add(1, Ordering::Release);
            });
        }
        if sc.drop_early {
            // the collection dies while the other threads are still using its wakers
            step(2);
            drop(coll.take());
            step(1);
        }
        let mut guard = 0u64;
        loop {
            guard += 1;
            if guard > 2_000_000 {
                return Err("executor did not quiesce".into());
            }
            let all_done = sh.threads_done.load(Ordering::Acquire) == nthreads;
            let Some(c) = coll.as_mut() else {
                if all_done {
                    break;
                }
                std::thread::yield_now();
                continue;
            };
            if resolved {
                if all_done {
                    break;
                }
                std::thread::yield_now();
                continue;
            }
            let woken = tws[last_k].count.load(Ordering::SeqCst) > at_start[last_k];
            if !last_pending || woken {
                let k = if sc.change_waker && polls % 3 == 2 { 1 - last_k } else { last_k };
                at_start = [tws[0].count.load(Ordering::SeqCst), tws[1].count.load(Ordering::SeqCst)];
                step(1);
                let mut cx = Context::from_waker(&wakers[k]);
                let g = c.poll(&mut cx);
                polls += 1;
                last_k = k;
                last_pending = matches!(g, Got::Pending | Got::Done);
                let got_one = matches!(g, Got::Fut(_));
                handle!(g);
                if got_one && next_push < total {
                    // a slot has just been vacated: push into it while stale wakers of its previous occupant are
                    // (possibly right now) being used by the other threads
                    let f = mk(next_push);
                    match c {
                        Coll::UB(q) => {
                            if q.try_push(f).is_err() {
                                return Err(format!("push of child {next_push} refused although an output was just yielded"));
                            }
                        }
                        Coll::UU(q) => q.push(f),
                        Coll::OU(q) => q.push_back(f),
                        _ => unreachable!(),
                    }
                    next_push += 1;
                }
                continue;
            }
            if all_done {
                break;
            }
            step(1);
            std::thread::park_timeout(std::time::Duration::from_micros(200));
        }
        Ok(())
    });
    result?;
    // quiescence oracle
    if coll.is_some() && !resolved {
        for i in 0..next_push {
            let r = sh.ready[i].load(Ordering::SeqCst);
            if is_merge {
                if items[i] < r {
                    return Err(format!("lost wake-up: task asleep, source {i} has {r} items, {} yielded", items[i]));
                }
            } else if r > 0 && !sh.done[i].load(Ordering::SeqCst) {
                return Err(format!("lost wake-up: task asleep, child {i} completed+woken but never re-polled"));
            } else if r > 0 && !yielded[i] && !matches!(sc.subj, Subj::OU | Subj::JA) {
                return Err(format!("child {i} completed but not yielded"));
            }
        }
    }
    if sh.polled_after_done.load(Ordering::SeqCst) {
        return Err("a finished child was polled again".into());
    }
    step(2);
    drop(coll.take());
    step(3);
    for i in 0..total {
        let st = std::mem::take(&mut *sh.stash[i].lock().unwrap());
        drop(st);
    }
    step(0);
    for i in 0..next_push {
        let d = sh.dropped[i].load(Ordering::SeqCst);
        if d != 1 {
            return Err(format!("child {i} dropped {d} times"));
        }
    }
    let _ = sh.n;
    let y = yielded.iter().filter(|b| **b).count() as u64 + items.iter().map(|x| *x as u64).sum::<u64>();
    Ok((polls, y))
}

// ------------------------------------------------------------------------------------------------
// hammer mode (C12 under concurrency): a few "hot" children are woken by other threads in tight loops while the
// owner polls flat out; the "cold" children, whose wakers nobody ever invokes, must keep their single poll.
// Sound for every interleaving: a poll of a cold child after its first would have no notification behind it.

struct HShared {
    polls: Vec<AtomicU32>,
    wakers: Vec<Mutex<Option<Waker>>>,
    stop: AtomicBool,
    wakes: std::sync::atomic::AtomicU64,
}
struct HFut {
    id: usize,
    hot: bool,
    sh: Arc<HShared>,
}
impl Future for HFut {
    type Output = usize;
    fn poll(self: Pin<&mut Self>, cx: &mut Context<'_>) -> Poll<usize> {
        self.sh.polls[self.id].fetch_add(1, Ordering::Relaxed);
        if self.hot {
            let mut g = self.sh.wakers[self.id].lock().unwrap();
            if g.is_none() {
                *g = Some(cx.waker().clone());
            }
        }
        Poll::Pending
    }
}

fn hammer(seed: u64, ms: u64) -> Result<String, String> {
    let mut s = seed ^ 0x5EED_4A11;
    let r = &mut s;
    let mut rounds = 0u64;
    let mut total_polls = 0u64;
    let mut total_wakes = 0u64;
    let t_end = std::time::Instant::now() + std::time::Duration::from_millis(ms);
    while std::time::Instant::now() < t_end {
        rounds += 1;
        let n = 4 + (splitmix(r) % 20) as usize;
        let nhot = 1 + (splitmix(r) % 4) as usize;
        let unbounded = splitmix(r) % 2 == 0;
        let hot_ids: Vec<usize> = (0..nhot).map(|_| (splitmix(r) as usize) % n).collect();
        let sh = Arc::new(HShared {
            polls: (0..n).map(|_| AtomicU32::new(0)).collect(),
            wakers: (0..n).map(|_| Mutex::new(None)).collect(),
            stop: AtomicBool::new(false),
            wakes: std::sync::atomic::AtomicU64::new(0),
        });
        let mk = |i: usize| HFut { id: i, hot: hot_ids.contains(&i), sh: sh.clone() };
        enum C {
            B(FuturesUnorderedBounded<HFut>),
            U(FuturesUnordered<HFut>),
        }
        let mut c = if unbounded {
            let mut q = FuturesUnordered::with_capacity(1 + (splitmix(r) % 3) as usize);
            for i in 0..n {
                q.push(mk(i));
            }
            C::U(q)
        } else {
            C::B((0..n).map(mk).collect())
        };
        let tw = Arc::new(TaskW { count: AtomicU32::new(0), thread: std::thread::current() });
        let waker = Waker::from(tw.clone());
        let slice_end = std::time::Instant::now() + std::time::Duration::from_millis(ms.min(150));
        let polls = std::thread::scope(|scope| {
            for &h in &hot_ids {
                let sh = sh.clone();
                scope.spawn(move || {
                    let w = loop {
                        if let Some(w) = sh.wakers[h].lock().unwrap().clone() {
                            break w;
                        }
                        if sh.stop.load(Ordering::Relaxed) {
                            return;
                        }
                        std::hint::spin_loop();
                    };
                    let mut k = 0u64;
                    while !sh.stop.load(Ordering::Relaxed) {
                        w.wake_by_ref();
                        k += 1;
                    }
                    sh.wakes.fetch_add(k, Ordering::Relaxed);
                });
            }
            let mut cx = Context::from_waker(&waker);
            let mut polls = 0u64;
            while std::time::Instant::now() < slice_end {
                for _ in 0..64 {
                    let _ = match &mut c {
                        C::B(q) => Pin::new(q).poll_next(&mut cx),
                        C::U(q) => Pin::new(q).poll_next(&mut cx),
                    };
                    polls += 1;
                }
                step(1);
            }
            sh.stop.store(true, Ordering::Relaxed);
            polls
        });
        total_polls += polls;
        total_wakes += sh.wakes.load(Ordering::Relaxed);
        for i in 0..n {
            let p = sh.polls[i].load(Ordering::Relaxed);
            if !hot_ids.contains(&i) && p != 1 {
                return Err(format!(
                    "round {rounds}: child {i} of {n} was polled {p} times although its waker was never invoked (hot children {hot_ids:?}, unbounded={unbounded}, {polls} polls of the collection)"
                ));
            }
        }
        step(2);
        drop(c);
        for i in 0..n {
            drop(sh.wakers[i].lock().unwrap().take());
        }
        step(0);
    }
    Ok(format!("E4-hammer ok: seed={seed} rounds={rounds} collection_polls={total_polls} off_thread_wake_invocations={total_wakes}"))
}

fn main() {
    let args: Vec<String> = std::env::args().collect();
    let mut seed = 1u64;
    let mut iters = 200u64;
    let mut maxc = 4usize;
    let mut hang_secs = 30u64;
    let mut hammer_ms = 0u64;
    let mut i = 1;
    while i < args.len() {
        match args[i].as_str() {
            "--seed" => {
                seed = args[i + 1].parse().unwrap();
                i += 1
            }
            "--iters" => {
                iters = args[i + 1].parse().unwrap();
                i += 1
            }
            "--hang-secs" => {
                hang_secs = args[i + 1].parse().unwrap();
                i += 1
            }
            "--hammer-ms" => {
                hammer_ms = args[i + 1].parse().unwrap();
                i += 1
            }
            "--max-children" => {
                maxc = args[i + 1].parse().unwrap();
                i += 1
            }
            _ => {}
        }
        i += 1;
    }
    let mut polls = 0;
    let mut yielded = 0;
    let mut offthread = 0u64;
    let mut nontrivial = 0u64;
    let mut early = 0u64;
    if !cfg!(miri) && hang_secs > 0 {
        std::thread::spawn(move || {
            let mut last = PROGRESS.load(Ordering::Relaxed);
            let mut stalled = 0u64;
            loop {
                std::thread::sleep(std::time::Duration::from_secs(1));
                let now = PROGRESS.load(Ordering::Relaxed);
                if now == last {
                    stalled += 1;
                } else {
                    stalled = 0;
                    last = now;
                }
                if stalled >= hang_secs {
                    let it = CUR_ITER.load(Ordering::Relaxed);
                    let ph = ["between scenarios", "poll/push", "drop of the collection", "drop of the last wakers"][PHASE.load(Ordering::Relaxed) % 4];
                    println!("E4-HANG seed={seed} iter={it} :: no progress for {hang_secs} s in phase '{ph}' (a scenario normally takes microseconds) :: {:?}", gen(seed, it, maxc));
                    std::process::exit(3);
                }
            }
        });
    }
    if hammer_ms > 0 {
        match hammer(seed, hammer_ms) {
            Ok(m) => {
                println!("{m}");
                return;
            }
            Err(e) => {
                println!("E4-VIOLATION seed={seed} hammer :: {e}");
                std::process::exit(1);
            }
        }
    }
    for it in 0..iters {
        CUR_ITER.store(it, Ordering::Relaxed);
        step(0);
        let sc = gen(seed, it, maxc);
        // ops that use a waker on a thread other than the polling one
        let ops: u64 = sc.threads.iter().map(|t| t.iter().filter(|o| !matches!(o, WOp::Yield)).count() as u64).sum();
        offthread += ops;
        if ops > 0 {
            nontrivial += 1;
        }
        if sc.drop_early {
            early += 1;
        }
        match run(&sc) {
            Ok((p, y)) => {
                polls += p;
                yielded += y;
            }
            Err(e) => {
                println!("E4-VIOLATION seed={seed} iter={it} :: {e} :: {sc:?}");
                std::process::exit(1);
            }
        }
    }
    println!("E4 ok: seed={seed} iterations={iters} polls={polls} items={yielded} off_thread_waker_ops={offthread} nontrivial_iterations={nontrivial} drop_early_iterations={early}");
}
