#!/bin/bash
# tools/silence_run.sh <seeds...> : every quick check, several seeds, fresh processes, unchanged tree.
# Anything but exit 0 is printed.
cd /verif
for seed in "$@"; do
  for p in 01 02 03 04 05 06 07 08 09 10 11 12 13 14 15 16 17 18; do
    out=$(VERIF_SEED=$seed ./check quick C$p --no-evidence 2>&1); rc=$?
    if [ $rc -ne 0 ]; then echo "seed=$seed C$p rc=$rc"; echo "$out" | grep -E "VIOLATION|INCONCLUSIVE|HARNESS|^  \[" | head -5; fi
  done
  echo "seed $seed done"
done
