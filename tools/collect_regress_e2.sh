#!/bin/bash
# keeps the failing (scenario, schedule seed) pair of every change that only the schedule engine catches
cd /verif
if ! git -C /repo diff --quiet; then echo "refusing: /repo dirty"; exit 2; fi
one() { name=$1; patch=$2; prop=$3
  [ -f replays/regress/E2-$name.json ] && return
  git -C /repo apply "/verif/$patch" || { echo "$name: does not apply"; return; }
  find /verif/replays -maxdepth 1 -name "$prop-E2-*.json" -delete
  ( cd sched && cargo build --release --quiet 2>/dev/null )
  ./target/sched/release/vsched run $prop quick >/dev/null 2>&1; rc=$?
  git -C /repo checkout -- .
  f=$(ls -t replays/$prop-E2-*.json 2>/dev/null | head -1)
  if [ $rc -eq 1 ] && [ -n "$f" ]; then cp "$f" replays/regress/E2-$name.json; echo "$name: kept"; else echo "$name: nothing (rc=$rc)"; fi
}
one S20-lazy-registration seeded/S20-C01-lazy-registration/patch.diff C01
one S31-pop-try-lock seeded/S31-C01-pop-try-lock/patch.diff C01
one S32-is-unique seeded/S32-C03-is-unique-check-then-act/patch.diff C03
one S47-notified-flag seeded/S47-C01-notified-flag-reset-before-register/patch.diff C01
one S48-idle-group-peek seeded/S48-C01-idle-group-peek-before-register/patch.diff C01
one S50-push-check-then-act seeded/S50-C01-push-check-then-act/patch.diff C01
one S72-notify-before-enqueue seeded/S72-C01-notify-before-enqueue/patch.diff C01
one S74-draining-mark seeded/S74-C01-draining-mark-skips-notify/patch.diff C01
one e2a-notify-before-enqueue mutants/e2a-notify-before-enqueue.diff C01
one e2b-register-after-drain mutants/e2b-register-after-drain.diff C01
one m03a-clone-without-inc mutants/m03a-clone-without-inc.diff C03
one m03d-wake-by-value-leaks mutants/m03d-wake-by-value-leaks.diff C03
( cd sched && cargo build --release --quiet 2>/dev/null )
git -C /repo status --short
