#!/bin/bash
# every thorough check once (sequentially), unchanged tree; prints anything that is not exit 0
cd /verif
for p in "$@"; do
  t0=$(date +%s)
  out=$(./check thorough C$p --no-evidence 2>&1); rc=$?
  t1=$(date +%s)
  echo "C$p thorough rc=$rc $((t1-t0))s"
  echo "$out" | grep -E "VIOLATION|INCONCLUSIVE|HARNESS|^  \[|thorough seed|E2|E3|E4" | cut -c1-220
done
