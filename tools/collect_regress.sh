#!/bin/bash
# tools/collect_regress.sh : for every seeded change and every mutant, apply it to /repo, run the quick check of the
# property that catches it, keep the shrunk replay as a committed regression input, undo the patch.
# (A regression input passes on the unchanged tree and fails again if that kind of bug comes back.)
set -u
cd /verif
if ! git -C /repo diff --quiet; then echo "refusing: /repo dirty"; exit 2; fi
collect() { # name patch prop
  name=$1; patch=$2; prop=$3
  [ -f replays/regress/$name.json ] && return
  git -C /repo apply "/verif/$patch" || { echo "$name: patch does not apply"; return; }
  find /verif/replays -maxdepth 1 -name "$prop-*.json" -delete
  out=$(./check quick $prop --no-evidence 2>&1); rc=$?
  git -C /repo checkout -- .
  f=$(ls -t replays/$prop-*.json 2>/dev/null | grep -v E2 | head -1)
  if [ $rc -eq 1 ] && [ -n "$f" ]; then cp "$f" replays/regress/$name.json; echo "$name: kept $(basename $f)"; else echo "$name: nothing to keep (rc=$rc)"; fi
}
for d in seeded/S*/; do
  n=$(basename $d); prop=$(python3 -c "import json;print(json.load(open('$d/meta.json'))['breaks_property'])")
  # use the property that is known to catch it in E1
  case $n in S15*) prop=C02;; S20*) continue;; S88*) continue;; esac  # S88: a 26 MB case (65537 join inputs); the huge shape generates that population in every run of C07
  collect "$n" "$d/patch.diff" "$prop"
done
while read name props; do
  case $name in e2*|e4*) continue;; esac
  prop=$(echo $props | awk '{print $1}')
  collect "M-$name" "mutants/$name.diff" "$prop"
done < mutants/INDEX.txt
trap - EXIT
git -C /repo status --short
