#!/usr/bin/env python3
"""Writes /verif/MANIFEST.json. Edit the tables here, never the JSON."""
import json, subprocess

hook_commits = [l.split()[0] for l in subprocess.check_output(
    ['git', '-C', '/repo', 'log', '--format=%h %s']).decode().splitlines() if 'verif hook' in l]

P = {
 'C01': ("stateful PBT (proptest histories vs dirty-set/wake-obligation oracle) + generated thread schedules on the real code (shuttle) + fuzzing/Miri in the thorough tier",
         "generated push/poll/wake/complete histories over all 13 subjects with a pool of 3 task wakers; after every Pending poll and every wake the oracle demands that a pushed/woken-but-unpolled child implies the task waker of the most recent poll was invoked since that poll began; the epilogue drives an honest executor to completion",
         "E1 decides the history/configuration quantifier single-threaded; E2 explores sequentially consistent interleavings of 1-3 waker threads against the poller with at most 6 children (scheduling points before every atomic/lock of the waker block, inside cordyceps and diatomic-waker); reorderings weaker than SC are only seen by Miri's emulation in the thorough tier (E4)"),
 'C02': ("stateful PBT: proptest histories vs multiset / exactly-once ledger model",
         "every token yielded must belong to an accepted, completed, not yet yielded child; Ready(None) iff the model is empty; Pending never when empty; the epilogue completes and wakes everything and requires every accepted child to come out",
         "exploration over generated histories up to ~370 children / 8 groups; no absence claim"),
 'C03': ("stateful PBT: ownership ledger of the shared waker block (probes H1) + poisoned quarantine, over proptest histories, generated thread schedules (shuttle) and real threads under Miri",
         "block alloc/release and every waker-vtable entry are reported by add-only probes before anything is dereferenced; ledger rules: released exactly once, only with zero outstanding clones, never while its group is live, no vtable entry into a released block, nothing leaked at the end of the case - neither a block nor a task waker cached in a block's header (the harness counts its own task-waker objects); all death orders of collection and wakers are generated",
         "ledger + write-after-free detection single-threaded (E1) and under generated SC schedules (E2); data races and ordering bugs proper only through Miri on generated real-thread scenarios (E4: 12 scheduler seeds x 12 scenarios quick, 48 x 24 thorough; the owner also pushes into just-vacated slots while stale wakers of them are in use); a non-atomic read-modify-write inside waker_list.rs cannot be split by the add-only scheduling hook (found by Miri instead)"),
 'C04': ("stateful PBT: proptest histories vs VecDeque reference model with seeded position counters (hook H2)",
         "ordered collections are compared after every poll with a deque model under push_back/push_front; both position counters are seeded anywhere including next to 0, 2^63 and usize::MAX so wrap and re-base paths run; ordered adapters must yield in upstream order; join outputs must sit at their input index",
         "exploration; counters are seeded through a verification-only setter, trusted to be equivalent to 2^63 real pushes"),
 'C05': ("stateful PBT: per-child life-cycle automaton over generated histories",
         "Fresh->Polled*->Done->Dropped automaton inside every scripted future/stream; a poll in Done is a violation; at the return of every collection poll every child that finished during that call must already be dropped; stale wakers of finished children are fired before and after slot reuse",
         "exploration"),
 'C06': ("stateful PBT: drop ledger (exactly one drop per identity) over generated histories with early drop at any prefix",
         "every scripted future, stream and output token created in a case is counted; at the end (subject dropped at a generated point, harness-held values dropped) every count must be exactly 1; refused and panicking pushes included",
         "exploration"),
 'C07': ("PBT with poisoning allocator: provenance ledger of every value handed out by join_all/try_join_all",
         "0..140 inputs, any completion order, any failing subset, 0..3 further polls after the first Ready; every value handed out by any poll must validate as a genuine, undelivered token (fresh memory is filled with 0xA5 so an uninitialised slot fails validation); first Ready must be after all inputs / the first observed error",
         "exploration; a re-poll after completion may panic or stay Pending (I5)"),
 'C08': ("stateful PBT: address-stability invariant on !Unpin children",
         "every scripted child records its address at its first poll; every later poll and its drop must see the same address, across subject moves, group creation/removal/rotation and slot reuse",
         "exploration; adapters are never moved by the harness because their upstream is stored inline"),
 'C09': ("stateful PBT on scripted upstreams: in-flight counter + work-conservation rule",
         "in-flight futures counted at the moment upstream hands one out (must be <= n); at every Pending return: n pulled items unfinished/undelivered, or upstream ended, or upstream polled in this call and answered Pending",
         "exploration over n in 1..70"),
 'C10': ("stateful PBT on scripted upstreams: protocol automaton (fuse, exactly-once errors, exact termination, bounded liveness)",
         "upstream polled after None, lost/duplicated upstream errors, futures discarded while the adapter is alive, None before upstream ended or with work in flight, Pending when done, and an honest-environment epilogue that must finish within a bounded number of rounds; includes for_each_concurrent(0)",
         "exploration; liveness checked as bounded liveness"),
 'C11': ("stateful PBT: per-source sequence model of the merges",
         "items tagged (source, seq); per source 0,1,2,..; None iff all sources ended; a Pending that did not wake its task requires every held source to have answered Pending last; 0..150 sources crossing the 32/64 group boundaries, pushes into a running merge",
         "exploration"),
 'C12': ("stateful PBT: counting inequality child polls <= accepted pushes + effective wakes + merge items",
         "wakes are attributed to the slot they hit and coalesced exactly like the queued flag (repeated wakes between two polls of a child count once); the inequality is evaluated after every operation; under concurrency: E2 (generated shuttle schedules) checks the aggregate and a per-child form of the inequality, E4 hammer mode (threads invoking hot children's wakers in tight loops while the owner polls) requires that a child whose waker is never invoked is polled exactly once",
         "exploration; the hammer run is timing dependent (its verdict is sound in every interleaving, its reach depends on the machine)"),
 'C13': ("PBT on adversarial populations: bounded-delay and bounded-work counters",
         "forever self-waking futures, endless sources and push-one/pop-one refill around a victim that is woken once; a woken child must be polled within (G+1)(N+2)+4 collection polls (G groups, N capacity) and one call may make at most 1024(2G+1)(events+2) child polls (no oracle depends on today's budget of 61); an unbounded loop is cut by a hard cap and reported",
         "exploration; bounds are deliberately generous because failures are unbounded"),
 'C14': ("stateful PBT: task-waker invocation ledger + Settle probes",
         "every invocation of a task waker outside a poll must happen inside a bracketed child-waker (or upstream) invocation made by the environment; Settle freezes every child (pending, silent) and requires a clean Pending within held+2 (+stale invocations / measured per-call budget) polls",
         "exploration"),
 'C15': ("stateful PBT: counting model of capacity and observers",
         "capacities 0..300; push accepted iff fewer than n running; refusal returns the very same unpolled, undropped future; panicking push leaves observers unchanged and drops its argument once; len/is_empty/size_hint/is_terminated/capacity compared with the model after every operation",
         "exploration; memory-sized capacities out of scope (I6)"),
 'C16': ("stateful PBT on scripted upstreams: pulled - yielded <= n",
         "ordered adapters with upstream longer than n (also endless), head-of-line stall shapes; the inequality is checked at every upstream pull and after every poll",
         "exploration"),
 'C17': ("stateful PBT: retrospective bound check of size_hint against model and measurement",
         "size_hint read after every operation on every stream; lower <= rest <= upper with rest from the harness' own bookkeeping, and re-checked against what was actually yielded afterwards when the case is driven to the end; upstream hints honest in 5 styles",
         "exploration"),
 'C18': ("PBT with a counting global allocator: zero / logarithmic bound on allocations inside the crate",
         "allocations are counted per thread only while inside a crate call and outside harness call-backs; bounded family must stay at 0 after construction, unbounded family <= 5(ceil(log2(peak+1))+2)+8 regardless of how many fill/drain cycles are repeated",
         "exploration; the unwinding machinery of a documented panic is not counted"),
}

checks = []
for pid, (tech, text, note) in sorted(P.items()):
    checks.append({
        "property_id": pid,
        "quick_cmd": f"./check quick {pid}",
        "thorough_cmd": f"./check thorough {pid}",
        "evidence_file": f"/verif/evidence/{pid}.json",
        "replay_cmd_template": "./check replay {path}",
        "engine": "E1-histories",
        "level_claimed": {"category": "exploration", "text": text, "design_ref": f"DESIGN.md §4 {pid}"},
        "level_note": note,
        "technique": tech.strip(),
    })

m = {
 "version": 1,
 "setup_cmd": "./check setup",
 "hooks": {
   "guard": "futures_buffered_verif",
   "enable": "RUSTFLAGS='--cfg futures_buffered_verif' (set in /verif/*/.cargo/config.toml of every engine crate; /repo is a path dependency, so every check rebuilds from /repo's working tree)",
   "baseline_off_cmd": "cd /repo && cargo test --workspace --no-fail-fast --offline --lib --tests",
   "source_commits": hook_commits[::-1],
   "add_only": True,
 },
 "engines": [
   {"name": "E1-histories", "path": "/verif/harness", "serves_properties": sorted(P.keys()),
    "kind_free_text": "proptest 1.11 TestRunner on 16 threads over generated (subject, configuration, operation list) cases; scripted futures/streams/wakers/allocator; reference models and ledgers evaluated after every step; shrinking to a JSON replay file; committed regression replays re-run first"},
   {"name": "E2-schedules", "path": "/verif/sched", "serves_properties": ["C01", "C03"],
    "kind_free_text": "proptest-generated scenarios (poller script + 1-3 waker-thread scripts + early drop) x seeded shuttle 0.9 schedules (random and PCT) on the real crate; cordyceps/diatomic-waker atomics become scheduling points through their loom cfgs and /verif/shim-loom, waker_list.rs through hook H1; every failing (scenario, schedule seed) pair replays exactly"},
   {"name": "E3-fuzz", "path": "/verif/fuzz", "serves_properties": [p for p in sorted(P.keys()) if p != "C18"],
    "kind_free_text": "cargo-fuzz/libFuzzer + ASan targets fz_collections, fz_merges, fz_adapters, fz_joins: bytes are decoded into the same op language and run through the same interpreter and oracles as E1 (thorough tiers only)"},
   {"name": "E4-threads", "path": "/verif/threads", "serves_properties": ["C01", "C03"],
    "kind_free_text": "seed-generated waker-traffic scenarios on real std threads, natively and under Miri with many scheduler seeds (data races, use-after-free, leaks, weak-memory emulation). ThreadSanitizer is deliberately not an oracle: it does not model the acquire fence of the release path and reports a false race on the unchanged tree"},
 ],
 "checks": checks,
 "not_applicable": [],
 "notes": "All checks are property-based: generated histories/inputs against explicit oracles. Known findings and repaired defects: /verif/known_findings.json. Sensitivity patches: /verif/mutants, seeded changes by independent agents: /verif/seeded.",
}
json.dump(m, open('/verif/MANIFEST.json', 'w'), indent=1)
print("wrote MANIFEST.json with", len(checks), "checks")
