#!/bin/bash
# tools/run_e3.sh <Cxx> <runs> <out.json> <target> [<target>...] : engine E3 - coverage-guided fuzzing (libFuzzer + ASan)
# of the byte-decoded op language with the oracle of property Cxx fatal. exit 0 ok / 1 violation / 2 inconclusive
prop=$1; runs=$2; out=$3; shift 3
V=/verif; seed=${VERIF_SEED:-1}
cd $V/fuzz
export RUSTFLAGS="--cfg futures_buffered_verif"
cargo +nightly fuzz build --fuzz-dir . >$V/target/e3-build.log 2>&1 || { echo "INCONCLUSIVE: E3 fuzz build failed"; tail -5 $V/target/e3-build.log; exit 2; }
t0=$(date +%s.%N); total=0; nt=0; rcall=0
for tgt in "$@"; do
  corp=$V/target/fuzz-corpus/$prop-$tgt-$seed; rm -rf $corp; mkdir -p $corp
  python3 - $corp $seed <<'PY'
import sys,random
d,seed=sys.argv[1],int(sys.argv[2]); r=random.Random(seed)
for i in range(24):
    n=r.choice([8,24,60,120,240,400])
    open(f"{d}/seed{i:02d}","wb").write(bytes(r.randrange(256) for _ in range(n)))
PY
  sum=$V/target/e3-$prop-$tgt.json; rm -f $sum
  VERIF_PROP=$prop VERIF_FUZZ_SUMMARY=$sum $V/fuzz/target/x86_64-unknown-linux-gnu/release/$tgt -artifact_prefix=$V/target/fuzz-artifacts- -runs=$runs -seed=$seed -max_len=400 -len_control=0 -print_final_stats=1 $corp >$V/target/e3-$prop-$tgt.log 2>&1; rc=$?
  if grep -q "^VIOLATION" $V/target/e3-$prop-$tgt.log; then grep -A1 "^VIOLATION" $V/target/e3-$prop-$tgt.log | head -4; rcall=1; continue; fi
  if [ $rc -ne 0 ]; then echo "INCONCLUSIVE: fuzz target $tgt exit $rc"; tail -5 $V/target/e3-$prop-$tgt.log; [ $rcall -eq 0 ] && rcall=2; continue; fi
  ex=$(grep -o "stat::number_of_executed_units: [0-9]*" $V/target/e3-$prop-$tgt.log | grep -o "[0-9]*$"); total=$((total+${ex:-0}))
  if [ -f $sum ]; then n=$(python3 -c "import json;print(json.load(open('$sum'))['distinct_nontrivial'])"); nt=$((nt+n)); fi
done
t1=$(date +%s.%N)
python3 - "$out" "$prop" "$seed" "$total" "$nt" "$t0" "$t1" "$*" <<'PY'
import json,sys
out,prop,seed,total,nt,t0,t1,tg=sys.argv[1:]
samples=[]
for t in tg.split():
    try: samples.append({"target":t, **json.load(open(f"/verif/target/e3-{prop}-{t}.json"))["sample"]})
    except Exception: pass
json.dump({"engine":"E3-fuzz","property":prop,"seed":int(seed),"targets":tg.split(),"executions":int(total),"distinct_nontrivial":int(nt),
 "rule":"execution = one libFuzzer input (ASan build) decoded byte-wise into (subject, configuration, ops) and run through the same interpreter and oracles as E1, with the oracle of this property fatal; non-trivial by the E1 rule of this property, counted on distinct case digests (a lower bound: the counter is sampled every 2048 executions)",
 "samples":samples[:2],"violations":[],"wall_s":float(t1)-float(t0),
 "assumptions":["libFuzzer campaigns are pinned by -seed/-runs and a seeded corpus but are only approximately reproducible; a saved failing input is exact"]},open(out,"w"),indent=1)
PY
[ $rcall -eq 0 ] && echo "$prop E3 seed=$seed: $total fuzz executions over [$*] ok ($nt distinct non-trivial)"
exit $rcall
