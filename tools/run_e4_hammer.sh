#!/bin/bash
# tools/run_e4_hammer.sh <Cxx> <quick|thorough> <out.json> : engine E4, hammer mode (real threads, native)
# 1-4 threads invoke the wakers of "hot" children in tight loops while the owner polls the collection flat out;
# a "cold" child (waker never invoked) polled a second time is a violation of C12 in every interleaving.
# exit 0 ok / 1 violation / 2 inconclusive (build failure, stall)
prop=$1; tier=$2; out=$3
V=/verif; seed=${VERIF_SEED:-1}
if [ "$tier" = thorough ]; then MS=20000; else MS=2000; fi
cd $V/threads
t0=$(date +%s.%N)
cargo build --release --quiet 2>$V/target/e4-build.log || { echo "INCONCLUSIVE: E4 build failed"; tail -5 $V/target/e4-build.log; exit 2; }
res=$(timeout $((MS/1000*4+120)) $V/target/threads/release/vthreads --seed $seed --hammer-ms $MS 2>&1); rc=$?
if echo "$res" | grep -q E4-VIOLATION; then
  mkdir -p $V/replays; f=$V/replays/$prop-E4-hammer-seed$seed.txt; echo "$res" > $f
  echo "  [E4/hammer] $(echo "$res" | grep -m1 E4-VIOLATION | cut -c1-300)"; echo "VIOLATION property=$prop replay=$f"; exit 1
fi
if [ $rc -ne 0 ]; then echo "INCONCLUSIVE: E4 hammer exit $rc: $(echo "$res" | tail -1 | cut -c1-200)"; exit 2; fi
t1=$(date +%s.%N)
python3 - "$out" "$prop" "$tier" "$seed" "$MS" "$res" "$t0" "$t1" <<'PY'
import json,sys,re
out,prop,tier,seed,MS,res,t0,t1=sys.argv[1:]
m=re.search(r'rounds=(\d+) collection_polls=(\d+) off_thread_wake_invocations=(\d+)',res)
rounds,polls,wakes=(int(x) for x in m.groups()) if m else (0,0,0)
json.dump({"engine":"E4-threads","property":prop,"tier":tier,"seed":int(seed),
 "executions":rounds,"distinct_nontrivial":rounds if wakes>0 else 0,
 "rule":"execution = one hammer round (about 150 ms): a generated collection (bounded, or unbounded started with capacity 1-3; 4-23 children, 1-4 of them hot) whose hot children's wakers are invoked by one thread each in a tight loop while the owner polls flat out; oracle: a cold child (waker never invoked) is polled exactly once - sound in every interleaving; non-trivial = at least one off-thread invocation overlapped the polling; the run is timing dependent, only the verdict is not (%s ms per run)"%MS,
 "collection_polls":polls,"off_thread_wake_invocations":wakes,
 "samples":[{"native_summary":res.strip().splitlines()[-1]}],
 "assumptions":["a real-thread stress run: how often the racy window is hit depends on the machine; silence is weak evidence, a report is definite"],
 "violations":[],"wall_s":float(t1)-float(t0)},open(out,'w'),indent=1)
PY
echo "$prop E4 hammer $tier seed=$seed: $(echo "$res" | tail -1 | cut -c1-160)"
