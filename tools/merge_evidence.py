#!/usr/bin/env python3
"""merge_evidence.py <evidence.json> <engine-summary.json> : fold the summary of a secondary engine
(E2 schedules, E3 fuzz, E4 threads) into the evidence file written by the E1 engine."""
import json, sys
ev_path, sm_path = sys.argv[1], sys.argv[2]
ev = json.load(open(ev_path))
sm = json.load(open(sm_path))
cov = ev["coverage"]
name = sm.get("engine", "engine")
execs = int(sm.get("executions", 0))
nt = int(sm.get("distinct_nontrivial", 0))
cov.setdefault("engines", {})[name] = {k: v for k, v in sm.items() if k not in ("samples", "violations", "rule")}
cov["evaluations"] = int(cov.get("evaluations", 0)) + execs
cov["distinct_nontrivial"] = int(cov.get("distinct_nontrivial", 0)) + nt
if sm.get("rule"):
    cov["rule"] = cov.get("rule", "") + " || " + name + ": " + sm["rule"]
for s in sm.get("samples", [])[:2]:
    cov.setdefault("samples", []).append({"engine": name, **(s if isinstance(s, dict) else {"case": s})})
ev["wall_s"] = float(ev.get("wall_s", 0)) + float(sm.get("wall_s", 0))
ev["violations"] = int(ev.get("violations", 0)) + len(sm.get("violations", []))
for a in sm.get("assumptions", []):
    if a not in ev.setdefault("assumptions", []):
        ev["assumptions"].append(a)
json.dump(ev, open(ev_path, "w"), indent=1)
