#!/bin/bash
# tools/run_e4.sh <Cxx> <quick|thorough> <out.json> : engine E4 - real threads, natively and under Miri
# exit 0 ok / 1 violation (prints VIOLATION line) / 2 inconclusive
prop=$1; tier=$2; out=$3
V=/verif; seed=${VERIF_SEED:-1}
if [ "$tier" = thorough ]; then NAT=300000; MS=48; MI=24; NT=1800; MT=7200; else NAT=6000; MS=12; MI=12; NT=300; MT=1800; fi
cd $V/threads
t0=$(date +%s.%N)
cargo build --release --quiet 2>$V/target/e4-build.log || { echo "INCONCLUSIVE: E4 build failed"; tail -5 $V/target/e4-build.log; exit 2; }
# native stage under a watchdog: a stall (in-process watchdog, exit 3) or the outer time limit is NOT a verdict; the
# Miri stage still runs and decides, and without a finding there the check is inconclusive
nat=$(timeout $NT $V/target/threads/release/vthreads --seed $seed --iters $NAT 2>&1); rc=$?
hung=""
if echo "$nat" | grep -q E4-VIOLATION; then
  mkdir -p $V/replays; f=$V/replays/$prop-E4-native-seed$seed.txt; echo "$nat" > $f
  echo "  [E4/native] $(echo "$nat" | grep -m1 E4-VIOLATION | cut -c1-300)"; echo "VIOLATION property=$prop replay=$f"; exit 1
elif [ $rc -ne 0 ]; then
  hung="native stage exit $rc: $(echo "$nat" | grep -m1 E4-HANG | cut -c1-200)"
fi
miri=$(MIRIFLAGS="-Zmiri-many-seeds=0..$MS -Zmiri-disable-stacked-borrows" RUSTFLAGS="--cfg futures_buffered_verif" timeout $MT cargo +nightly miri run --quiet --target-dir $V/target/threads-miri -- --seed $seed --iters $MI --max-children 3 2>&1); rc=$?
okc=$(echo "$miri" | grep -c '^E4 ok')
if echo "$miri" | grep -q "Undefined Behavior\|E4-VIOLATION\|error: memory leaked"; then
  mkdir -p $V/replays; f=$V/replays/$prop-E4-miri-seed$seed.txt; echo "$miri" > $f
  echo "  [E4/miri] $(echo "$miri" | grep -m1 'Undefined Behavior\|E4-VIOLATION\|memory leaked' | cut -c1-300)"; echo "VIOLATION property=$prop replay=$f"; exit 1
fi
if [ -n "$hung" ]; then echo "INCONCLUSIVE: E4 $hung (Miri stage found nothing in $okc seeds)"; exit 2; fi
if [ $rc -ne 0 ] || [ "$okc" -lt "$MS" ]; then echo "INCONCLUSIVE: E4 miri run exit $rc, $okc of $MS seeds completed"; echo "$miri" | tail -5; exit 2; fi
t1=$(date +%s.%N)
python3 - "$out" "$prop" "$tier" "$seed" "$NAT" "$MS" "$MI" "$nat" "$t0" "$t1" <<'PY'
import json,sys,re
out,prop,tier,seed,NAT,MS,MI,nat,t0,t1=sys.argv[1:]
NAT,MS,MI=int(NAT),int(MS),int(MI)
m=re.search(r'nontrivial_iterations=(\d+)',nat); nt=int(m.group(1)) if m else 0
m2=re.search(r'off_thread_waker_ops=(\d+)',nat); ops=int(m2.group(1)) if m2 else 0
json.dump({"engine":"E4-threads","property":prop,"tier":tier,"seed":int(seed),
 "executions":NAT+MS*MI,"distinct_nontrivial":nt+MS*MI if nt else 0,
 "rule":"execution = one generated waker-traffic scenario (pure function of seed and iteration; 1-3 threads clone/wake/drop live and stale child wakers while the owner polls, pushes further children into the slots it has just vacated, changes its task waker and drops the collection early or late) run on real threads, natively (%d) and under Miri with %d scheduler seeds x %d scenarios (data-race, use-after-free, leak and weak-memory checks); non-trivial = at least one waker clone/wake/drop runs on a non-polling thread; distinct = distinct (seed, iteration[, miri seed])"%(NAT,MS,MI),
 "native_iterations":NAT,"miri_seeds":MS,"miri_scenarios_per_seed":MI,"off_thread_waker_ops_native":ops,
 "samples":[{"native_summary":nat.strip().splitlines()[-1]}],
 "assumptions":["ThreadSanitizer is NOT used as an oracle: it does not model the acquire fence of the reference-count release path and reports a false race on the unchanged tree; Miri models fences and is used instead"],
 "violations":[],"wall_s":float(t1)-float(t0)},open(out,'w'),indent=1)
PY
echo "$prop E4 $tier seed=$seed: native $NAT scenarios ok; miri $MS seeds x $MI scenarios ok"
