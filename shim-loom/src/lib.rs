//! A stand-in for `loom` backed by `shuttle` (see Cargo.toml). Only what `cordyceps 0.3.2`
//! (cfg(loom)) and `diatomic-waker 0.2.0` (cfg(diatomic_waker_loom)) import.

pub mod sync {
    pub use shuttle::sync::Arc;
    pub mod atomic {
        pub use shuttle::sync::atomic::*;
    }
}

pub mod cell {
    /// loom's closure-style `UnsafeCell`; access is not a scheduling point here.
    #[derive(Debug)]
    pub struct UnsafeCell<T>(std::cell::UnsafeCell<T>);

    impl<T> UnsafeCell<T> {
        pub fn new(data: T) -> UnsafeCell<T> {
            UnsafeCell(std::cell::UnsafeCell::new(data))
        }
        #[inline(always)]
        pub fn with<F, R>(&self, f: F) -> R
        where
            F: FnOnce(*const T) -> R,
        {
            f(self.0.get())
        }
        #[inline(always)]
        pub fn with_mut<F, R>(&self, f: F) -> R
        where
            F: FnOnce(*mut T) -> R,
        {
            f(self.0.get())
        }
    }
}

pub mod hint {
    pub fn spin_loop() {
        shuttle::hint::spin_loop()
    }
}

pub mod thread {
    pub use shuttle::thread::*;
}

pub mod alloc {
    /// leak tracking is not needed here
    #[derive(Debug)]
    pub struct Track<T>(T);
    impl<T> Track<T> {
        pub fn new(value: T) -> Track<T> {
            Track(value)
        }
        pub fn get_ref(&self) -> &T {
            &self.0
        }
        pub fn get_mut(&mut self) -> &mut T {
            &mut self.0
        }
        pub fn into_inner(self) -> T {
            self.0
        }
    }
}

pub fn model<F>(f: F)
where
    F: Fn() + Sync + Send + 'static,
{
    shuttle::check_random(f, 100)
}
