#![no_main]
//! Engine E3: coverage-guided fuzzing. Bytes -> Case (vharness::decode) -> the same interpreter and
//! oracles as the E1 engine. A violation of the property named in VERIF_PROP (default: any) aborts
//! with the replay file written first.
use libfuzzer_sys::fuzz_target;
use vharness::decode::Family;

fuzz_target!(|data: &[u8]| {
    vharness::fuzzrun::run(data, Family::Collections);
});
